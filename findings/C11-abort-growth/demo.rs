use redb::{Database, ReadableDatabase, ReadableTableMetadata, TableDefinition};
const T: TableDefinition<u64, &[u8]> = TableDefinition::new("t");

fn mk() -> (tempfile::NamedTempFile, Database) {
    let f = tempfile::NamedTempFile::new().unwrap();
    let db = Database::create(f.path()).unwrap();
    {
        let w = db.begin_write().unwrap();
        {
            let mut t = w.open_table(T).unwrap();
            t.insert(1, &[0u8; 100][..]).unwrap();
        }
        w.commit().unwrap();
    }
    (f, db)
}

#[test]
fn healthy_check_is_clean() {
    let (_f, mut db) = mk();
    assert!(db.check_integrity().unwrap());
    assert!(db.check_integrity().unwrap());
}

#[test]
fn abort_after_growth_then_check() {
    let (f, mut db) = mk();
    let len0 = std::fs::metadata(f.path()).unwrap().len();
    {
        let w = db.begin_write().unwrap();
        {
            let mut t = w.open_table(T).unwrap();
            let big = vec![7u8; 4 << 20];
            for i in 0..8 {
                t.insert(100 + i, big.as_slice()).unwrap();
            }
        }
        w.abort().unwrap();
    }
    let len1 = std::fs::metadata(f.path()).unwrap().len();
    eprintln!("file length before {len0} after aborted growth {len1}");
    let first = db.check_integrity().unwrap();
    let second = db.check_integrity().unwrap();
    eprintln!("first {first} second {second}");
    let r = db.begin_read().unwrap();
    let t = r.open_table(T).unwrap();
    assert_eq!(t.len().unwrap(), 1);
    assert!(first, "healthy database reported not clean by check_integrity after an aborted transaction grew the file");
    assert!(second);
}

use redb::{Builder, StorageBackend};
use std::io;
use std::sync::atomic::{AtomicU64, Ordering};
use std::sync::{Arc, Mutex};

// A backend that checks the clause "redb reads and writes only within the current length of the storage"
#[derive(Debug)]
struct Checked {
    data: Mutex<Vec<u8>>,
    out_of_range: Arc<AtomicU64>,
}

impl StorageBackend for Checked {
    fn len(&self) -> Result<u64, io::Error> {
        Ok(self.data.lock().unwrap().len() as u64)
    }
    fn read(&self, offset: u64, out: &mut [u8]) -> Result<(), io::Error> {
        let d = self.data.lock().unwrap();
        let end = offset as usize + out.len();
        if end > d.len() {
            self.out_of_range.fetch_add(1, Ordering::SeqCst);
            return Err(io::Error::new(io::ErrorKind::UnexpectedEof, "read past the end"));
        }
        out.copy_from_slice(&d[offset as usize..end]);
        Ok(())
    }
    fn set_len(&self, len: u64) -> Result<(), io::Error> {
        self.data.lock().unwrap().resize(len as usize, 0);
        Ok(())
    }
    fn sync_data(&self) -> Result<(), io::Error> {
        Ok(())
    }
    fn write(&self, offset: u64, data: &[u8]) -> Result<(), io::Error> {
        let mut d = self.data.lock().unwrap();
        let end = offset as usize + data.len();
        if end > d.len() {
            self.out_of_range.fetch_add(1, Ordering::SeqCst);
            return Err(io::Error::new(io::ErrorKind::UnexpectedEof, "write past the end"));
        }
        d[offset as usize..end].copy_from_slice(data);
        Ok(())
    }
}

const MAGIC: [u8; 9] = [b'r', b'e', b'd', b'b', 0x1A, 0x0A, 0xA9, 0x0D, 0x0A];

#[test]
fn truncated_file_with_magic_is_not_read_past_its_end() {
    for len in [9usize, 10, 100, 319] {
        let mut bytes = vec![0u8; len];
        bytes[..9].copy_from_slice(&MAGIC);
        let counter = Arc::new(AtomicU64::new(0));
        let backend = Checked { data: Mutex::new(bytes), out_of_range: counter.clone() };
        let r = Builder::new().create_with_backend(backend);
        assert!(r.is_err(), "a {len}-byte file cannot be a database");
        assert_eq!(counter.load(Ordering::SeqCst), 0, "file of {len} bytes: the open accessed the storage beyond its current length");
    }
}

#[test]
fn fresh_and_reopened_databases_stay_in_range() {
    let counter = Arc::new(AtomicU64::new(0));
    let backend = Checked { data: Mutex::new(vec![]), out_of_range: counter.clone() };
    let db = Builder::new().create_with_backend(backend).unwrap();
    drop(db);
    assert_eq!(counter.load(Ordering::SeqCst), 0);
}

#!/usr/bin/env python3
"""meta_from_eval.py <dir holding seeded/<id>/result.txt>   writes /verif/seeded/<id>/meta.json for every seeded change from the
outcome of tools/eval_seeded.sh (one line per check: `<prop>: VIOLATION .. obligation=<name> [no-failing-input-found]` / OK / UNDECIDED)."""
import json
import os
import re
import sys

src = sys.argv[1]
cat = {}
for line in open("/verif/seeded/catalogue.tsv"):
    parts = line.rstrip("\n").split("\t")
    if len(parts) >= 4:
        cat[parts[0]] = {"property": parts[1], "checks": parts[2], "needs": parts[3]}
# the checks that existed when the change was first evaluated did not catch these; the unit / check named was added afterwards
ADDED = {
    "C04-m2": "unit search (bound test of the range cursor)", "C04-m3": "unit guardmut", "C06-m1": "unit restore", "C06-m2": "unit cow (lone-leaf rebuild fragment)",
    "C06-m3": "native check X-unp (UnpersistedState)", "C07-m1": "native check X-pins (TransactionTracker)", "C07-m2": "unit allocrec", "C07-m3": "unit txcommit",
    "C08-m1": "unit wbuf", "C08-m3": "TransactionalMemory::non_durable_commit in unit alloc", "C09-m1": "unit relocate", "C09-m2": "unit mmiter",
    "C09-m3": "unit tableverify", "C10-m1": "unit cow (grandchild merge fragment)", "C10-m3": "unit bigpair", "C11-m1": "Allocators::resize_to claimed by C11",
    "C11-m3": "native check X-pins (TransactionTracker)", "C12-m2": "unit tableverify", "C17-m2": "unit tablens", "C17-m3": "unit tabledel", "C20-m2": "unit roopen",
    "C04-n1": "MutateHelper::pop_leaf_entry / delete_leaf_entries in unit rootupd", "C04-n2": "native check X-leafmut (LeafMutator)", "C06-n2": "unit mmremove", "C10-n1": "unit mmremove", "C10-n2": "unit splice", "C02-n1": "fragment post_commit_horizon in unit freeuntil (the clamp had been left out when C02 was claimed)", "C18-n2": "unit openrun", "C05-n1": "fragment invalidate_younger in unit restorequeue", "C05-n2": "unit extractif", "C13-n1": "unit mmrelocate", "C13-n2": "native check X-pins claimed by C13 (it existed for C06 / C07 / C11)", "C08-n2": "units merkle / repair claimed by C08 (they existed for C12)", "C01-n2": "units merkle / tableverify claimed by C01 (they existed for C12)",
    "C14-n1": "a soundness fix in the extractor (tail bindings are re-anchored on the real tail expression): the unit had verified the UNCHANGED text",
}


def engine(ob):
    if "/" in ob:
        return "Verus"
    if "-X-" in ob:
        return "native bounded"
    return "Kani"


for mid, c in sorted(cat.items()):
    d = "/verif/seeded/" + mid
    if not os.path.isdir(d):
        continue
    rp = os.path.join(src, "seeded", mid, "result.txt")
    caught, undec, how = [], [], []
    if os.path.exists(rp):
        for line in open(rp):
            m = re.search(r"VIOLATION property=(\S+) replay=\S+ obligation=(\S+)(.*)$", line)
            if m:
                prop, ob, rest = m.group(1), m.group(2), m.group(3)
                tag = "%s (%s)" % (prop, ob)
                if tag not in caught:
                    caught.append(tag)
                    e = engine(ob)
                    how.append("%s obligation %s refuted%s" % (e, ob, "; no counterexample (deductive): VIOLATION line ends no-failing-input-found"
                                                               if "no-failing-input-found" in rest else "; counterexample replayed on the real code: confirmed"))
            m = re.search(r"UNDECIDED property=(\S+) reason=(.*)$", line)
            if m:
                undec.append("%s: %s" % (m.group(1), m.group(2)[:160]))
    meta = {"id": mid, "property": c["property"], "needs": c["needs"], "checks_run": c["checks"],
            "caught_by": "; ".join(caught) if caught else "not caught", "how": " | ".join(how),
            "undecided": undec,
            "source": "independent sub-agent given only the property text and its own scratch worktree",
            "ran": "tools/confirm_mutant.sh (demo passes on the unchanged code, fails with the patch, the 448 existing tests pass with the patch), then "
                   "tools/eval_seeded.sh: every listed check against a scratch copy of /repo with the patch applied"}
    if mid in ADDED:
        meta["first_evaluation"] = "missed by the checks that existed when the change was delivered; caught after adding " + ADDED[mid]
    cj = os.path.join(d, "confirm.json")
    if os.path.exists(cj):
        meta["confirmation"] = json.load(open(cj))
    json.dump(meta, open(os.path.join(d, "meta.json"), "w"), indent=1)
    print(mid, meta["caught_by"][:120])

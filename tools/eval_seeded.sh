#!/bin/bash
# usage: eval_seeded.sh [id ...]   runs, for every listed (default: all) seeded change, the checks named in seeded/catalogue.tsv against a
# scratch copy of /repo with the change applied, and records the outcome in seeded/<id>/result.txt.  EVAL_P changes run at once.
cd "$(dirname "$0")/.."
one() {
  id=$1; checks=$2
  out=$(VERIF_JOBS=${VERIF_JOBS:-4} tools/try_mutant.sh seeded/$id/patch.diff ${checks//,/ } 2>&1)
  echo "$out" > seeded/$id/result.txt
  echo "== $id"; echo "$out"
}
export -f one
while IFS=$'\t' read -r id prop checks needs; do
  [ -z "$id" ] && continue
  if [ $# -gt 0 ]; then case " $* " in *" $id "*) ;; *) continue;; esac; fi
  [ -d seeded/$id ] || continue
  echo "$id $checks"
done < seeded/catalogue.tsv | xargs -P ${EVAL_P:-3} -L 1 bash -c 'one $0 $1'

#!/bin/bash
# usage: eval_seeded.sh [id ...]   runs, for every listed (default: all) seeded change, the checks named in seeded/catalogue.tsv against a
# scratch copy of /repo with the change applied, and records the outcome in seeded/<id>/result.txt
cd "$(dirname "$0")/.."
while IFS=$'\t' read -r id prop checks needs; do
  [ -z "$id" ] && continue
  if [ $# -gt 0 ]; then case " $* " in *" $id "*) ;; *) continue;; esac; fi
  [ -d seeded/$id ] || continue
  out=$(tools/try_mutant.sh seeded/$id/patch.diff ${checks//,/ } 2>&1)
  echo "$out" > seeded/$id/result.txt
  echo "== $id"; echo "$out"
done < seeded/catalogue.tsv

#!/bin/bash
# runs every claimed check (quick tier by default) sequentially; prints one status line per property
cd /verif
TIER=${1:-quick}
for p in $(python3 -c "import json; print(' '.join(sorted(json.load(open('obligations.json'))['properties'])))"); do
  s=$(date +%s)
  out=$(./check $p --tier $TIER 2>&1 | tail -3)
  echo "$p exit=$? $(( $(date +%s) - s ))s :: $out"
done

#!/usr/bin/env python3
import json, sys
pid = sys.argv[1]
for l in open('/verif/properties.jsonl'):
    p = json.loads(l)
    if p['id'] == pid:
        break
print(f"""You are helping evaluate a verification effort for the Rust crate cberner/redb (an embedded ACID key-value store: copy-on-write B-trees, buddy page allocator, MVCC readers, savepoints, dual commit slots). You have your own scratch git worktree of the repository at /tmp/wt3-{pid} (detached HEAD at the pinned commit). Work ONLY inside /tmp/wt3-{pid} and /tmp/out3-{pid}. Never touch /repo or /verif and do not read anything under /verif. The sandbox has no network; use `cargo ... --offline`.

Here is one semantic property of redb that should always hold:

  Title: {p['title']}
  Statement: {p['statement']}
  Quantified over: {p['quantifier']['text']}

Your task: produce ONE realistic change (bug) to redb's source under /tmp/wt3-{pid}/src which BREAKS this property while the crate still COMPILES and the repository's EXISTING test suite still PASSES unchanged. It should be a small plausible edit a developer could make by mistake (off-by-one, wrong variable, dropped condition, swapped order, missing update of a second data structure, wrong bound, etc.), not a deletion of whole features.

Prefer changes that need something SPECIFIC to manifest, rather than ones ordinary use exposes at once: a particular multi-step sequence of operations, an unusual input or size, a crash or I/O fault at a particular point, a particular interleaving, or two cooperating sites that each look fine alone.

Deliver in /tmp/out3-{pid}/m1/ :
  - patch.diff : output of `git -C /tmp/wt3-{pid} diff` containing only that change (changes to src/ only; it must apply to the pinned commit with `git apply`)
  - a demonstration: either a new Rust integration test file (demo.rs, to be placed in tests/ of the worktree; may use only the crate's public API and the existing dev-dependencies such as tempfile and rand) or a unit test added in a NEW test module appended to a source file (give it as demo.diff). The demonstration must FAIL (assertion failure / panic / wrong result) with your change applied and PASS on the unchanged code. State the exact command to run it.
  - notes.md : which clause of the property is broken, the root cause, what is needed for it to manifest, and what you ran (with results).

Before delivering a change, verify ALL of the following yourself in the worktree and record the results in notes.md:
  1. with the change: `cargo test --workspace --no-fail-fast --offline` compiles and every existing test passes (the suite has 448 tests; it takes ~1-2 min; if `cargo nextest` is available you may use `cargo nextest run --workspace --no-fail-fast --offline`). If an existing test fails, the change is not acceptable - find a subtler one.
  2. with the change: your demonstration fails.
  3. without the change (git stash / checkout): your demonstration passes.
Keep the worktree clean between changes (`git -C /tmp/wt3-{pid} checkout -- . && git -C /tmp/wt3-{pid} clean -fd tests src`), so each patch.diff contains one change only. Do not commit anything.

To limit load on the shared machine use at most 4 parallel jobs (`cargo test -j 4`, `--test-threads 4`). IMPORTANT build note: a cold build of the workspace compiles RocksDB (30+ min). A pre-built dependency cache is provided: run every cargo command with the environment variable CARGO_TARGET_DIR=/tmp/tg3-{pid} (already seeded; only redb itself is rebuilt, ~1 min). If cargo nevertheless starts compiling librocksdb-sys (needed only by the benchmark crates), stop it and run the suite as `cargo nextest run --offline -j 4 --no-fail-fast -p redb -p redb-derive --features redb/experimental_cursor` (or the `cargo test` equivalent) instead, and say so in notes.md; the full workspace suite is re-run on your change afterwards by someone else. Budget: stop after about 30 minutes of work; be quick and decisive - pick a candidate within the first 5 minutes of reading, and if a candidate fails an existing test move to another at once. Do not delete /tmp/tg3-{pid}; it is removed for you afterwards.

Final answer: a short list of the delivered changes (path, one line each: what was changed and what it needs to manifest).""")

#!/usr/bin/env python3
"""Generates /verif/MANIFEST.json from obligations.json."""
import json
reg = json.load(open("/verif/obligations.json"))
props = {json.loads(l)["id"]: json.loads(l) for l in open("/verif/properties.jsonl")}
NA = {
    "C03": "quantified over thread schedules: Kani has no thread support and Verus would need redb rewritten over its permission types (a model, not the code); the one sequential fact within reach (transaction ids strictly increase) is C01-K6",
    "C16": "quantified over thread schedules (see C03)",
    "C19": "quantifies over what another program (redb 3.0.0) does with our files; running it is differential testing, a different technique family; the shared v3 format obligations are claimed under C10",
}
LEVEL_TEXT = {
    "proof": "deductive proof of the named kernel obligations on the real code: Verus verifies every extracted function against its contract for all inputs and iterations; loop-free Kani harnesses over the full symbolic domain are complete proofs. The obligations are necessary conditions of the property (DESIGN.md section 4), not the whole property, except for C14 and C15 which are decided as stated.",
    "other": "bounded model checking (Kani/CBMC, stated bounds) of real code stands in for most of the kernel and is labelled bounded, never counted as proved; the Verus obligations and the loop-free Kani obligations listed as kind=complete are proofs.",
}
TECH = {}


def technique(p):
    parts = []
    units = []
    for v in p.get("verus", []):
        if v["unit"] not in units:
            units.append(v["unit"])
    if units:
        parts.append("Verus function contracts (requires/ensures, loop invariants, lemmas) on the real functions extracted from /repo on every run - units " + ", ".join(units))
    kc = [k for k in p.get("kani", []) if k.get("kind", "complete") == "complete"]
    kb = [k for k in p.get("kani", []) if k.get("kind") == "bounded"]
    if kc:
        parts.append("Kani/CBMC loop-free harnesses over the full symbolic domain on the real crate (complete): " + ", ".join(k["id"] for k in kc))
    if kb:
        parts.append("Kani/CBMC bounded harnesses (labelled bounded): " + ", ".join(k["id"] for k in kb))
    if p.get("native"):
        parts.append("native exhaustive enumeration of per-function contracts against a ghost model (cargo test, labelled bounded): " + ", ".join(k["id"] for k in p["native"]))
    return "contract-based deductive verification of the real code: " + "; ".join(parts)
checks = []
for pid in sorted(reg["properties"]):
    p = reg["properties"][pid]
    lvl = p.get("level", "proof")
    engines = []
    if p.get("verus"):
        engines.append("Verus")
    if p.get("kani"):
        engines.append("Kani")
    if p.get("native"):
        engines.append("native-bounded")
    checks.append({
        "property_id": pid,
        "quick_cmd": "./check %s --tier quick" % pid,
        "thorough_cmd": "./check %s --tier thorough" % pid,
        "evidence_file": "/verif/evidence/%s.json" % pid,
        "replay_cmd_template": "./check --replay {path}",
        "engine": "+".join(engines),
        "level_claimed": {"category": lvl, "text": LEVEL_TEXT[lvl] + " " + p.get("explanation", ""), "design_ref": "DESIGN.md section 4, " + pid},
        "level_note": "NOT decided by this check: " + p.get("not_decided", "") + ". Trusted base: see evidence coverage.trusted_base; assumed contracts: " + "; ".join(p.get("assumptions", []) or ["none beyond the trusted base"]),
        "technique": technique(p),
    })
m = {
    "version": 1,
    "setup_cmd": "./setup",
    "hooks": {
        "guard": "kani",
        "enable": "no hook is committed in /repo: every check copies /repo's working tree to a per-run scratch directory and APPENDS harness modules under #[cfg(any(kani, verif_replay))] there (lib/scratch.py); Verus units are extracted from /repo's text on every run (lib/extract.py)",
        "baseline_off_cmd": "cd /repo && cargo nextest run --workspace --no-fail-fast --offline || cargo test --workspace --no-fail-fast --offline",
        "source_commits": [],
        "add_only": True,
    },
    "engines": [
        {"name": "verus-extract", "path": "/verif/lib/extract.py", "serves_properties": [c["property_id"] for c in checks if "Verus" in c["engine"]],
         "kind_free_text": "mechanical extraction of real functions + overlay annotations -> single-file Verus unit, verified by verus 0.2026.09.13 (Z3)"},
        {"name": "kani-scratch", "path": "/verif/lib/kani_run.py", "serves_properties": [c["property_id"] for c in checks if "Kani" in c["engine"]],
         "kind_free_text": "Kani 0.68 harnesses appended to a scratch copy of the real crate; counterexamples replayed on the real code with cargo test"},
    ],
    "checks": checks,
    "not_applicable": [{"property_id": k, "reason": v} for k, v in sorted(NA.items())],
    "notes": "exit 2 + 'UNDECIDED property=..' means lost anchor / unsupported construct / solver limit: never an alarm. See DESIGN.md.",
}
assert set(props) == set(reg["properties"]) | set(NA), set(props) ^ (set(reg["properties"]) | set(NA))
json.dump(m, open("/verif/MANIFEST.json", "w"), indent=1)
print("checks:", len(checks), "not_applicable:", len(NA))

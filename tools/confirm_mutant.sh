#!/bin/bash
# usage: confirm_mutant.sh <out-dir (with patch.diff, demo.diff|demo.rs, notes.md)> <id> <demo test filter / command hint> [extra cargo flags for the demo]
# Confirms in a fresh scratch worktree: (1) patch applies, suite passes with it, (2) demo fails with it, (3) demo passes without it.
# Writes /verif/seeded/<id>/{patch.diff,demo.*,meta.json,confirm.log}
set -u
SRC=$1; ID=$2; FILTER=$3; XFLAGS=${4:-}
WT=/tmp/cf-$ID
OUT=/verif/seeded/$ID
mkdir -p $OUT
cp $SRC/patch.diff $OUT/patch.diff
[ -f $SRC/demo.diff ] && cp $SRC/demo.diff $OUT/demo.diff
[ -f $SRC/demo.rs ] && cp $SRC/demo.rs $OUT/demo.rs
[ -f $SRC/notes.md ] && cp $SRC/notes.md $OUT/notes.md
LOG=$OUT/confirm.log
: > $LOG
git -C /repo worktree remove --force $WT >/dev/null 2>&1
git -C /repo worktree add -q --detach $WT HEAD || exit 3
cd $WT
export CARGO_NET_OFFLINE=true
export CARGO_TARGET_DIR=/var/tmp/cf-target
add_demo() {
  if [ -f $OUT/demo.diff ]; then git apply $OUT/demo.diff || echo "DEMO-APPLY-FAILED" >> $LOG; fi
  if [ -f $OUT/demo.rs ]; then cp $OUT/demo.rs tests/verif_demo_$ID.rs; fi
}
run_demo() {
  if [ -f $OUT/demo.rs ]; then cargo test --offline -j 6 $XFLAGS --test verif_demo_$ID -- --test-threads 4 2>&1 | tail -15
  else cargo test --offline -j 6 -p redb@4.2.0 --lib $FILTER -- --test-threads 4 2>&1 | tail -15; fi
}
# (3) demo on unchanged code
add_demo
echo "== demo on UNCHANGED code" >> $LOG
run_demo >> $LOG 2>&1
grep -q "test result: ok" $LOG && CLEAN_OK=1 || CLEAN_OK=0
# (2) demo with patch
git apply $OUT/patch.diff || { echo "PATCH-APPLY-FAILED" >> $LOG; }
echo "== demo WITH patch" >> $LOG
run_demo > $OUT/.demo_mut.log 2>&1; cat $OUT/.demo_mut.log >> $LOG
grep -q "test result: FAILED\|panicked\|error: test failed" $OUT/.demo_mut.log && MUT_FAIL=1 || MUT_FAIL=0
rm -f $OUT/.demo_mut.log
# (1) suite with patch, demo removed
git checkout -q -- . ; git clean -fdq tests src; git apply $OUT/patch.diff
echo "== existing suite WITH patch" >> $LOG
cargo nextest run --workspace --no-fail-fast --offline -j 6 2>&1 | tail -6 > $OUT/.suite.log || true
cat $OUT/.suite.log >> $LOG
grep -q "448 passed\|448 tests run: 448 passed" $OUT/.suite.log && SUITE_OK=1 || SUITE_OK=0
rm -f $OUT/.suite.log
cd /; git -C /repo worktree remove --force $WT
echo "{\"id\": \"$ID\", \"demo_passes_on_unchanged\": $CLEAN_OK, \"demo_fails_with_patch\": $MUT_FAIL, \"suite_passes_with_patch\": $SUITE_OK}" > $OUT/confirm.json
cat $OUT/confirm.json

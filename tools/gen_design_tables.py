#!/usr/bin/env python3
"""Regenerates the generated tables of DESIGN.md (I.3 status, I.4 seeded changes) from the registry, evidence and seeded/."""
import glob
import json
import os
import re
reg = json.load(open("/verif/obligations.json"))
base = json.load(open("/verif/obligations.baseline.json"))
import fnmatch
rows = ["| id | level | Verus: functions proved (units) | Kani complete | Kani bounded (bound) | native bounded (cargo test, exhaustive to the bound) | not decided |",
        "|----|-------|------|------|------|------|------|"]
for pid in sorted(reg["properties"]):
    p = reg["properties"][pid]
    vn = 0
    per_unit = {}
    for spec in p.get("verus", []):
        names = [n for n in base["verus"].get(spec["unit"], []) if any(fnmatch.fnmatchcase(n, pat) for pat in spec["functions"])]
        per_unit.setdefault(spec["unit"], set()).update(names)
    vn = sum(len(v) for v in per_unit.values())
    vtxt = "%d (%s)" % (vn, ", ".join("%s %d" % (u, len(v)) for u, v in per_unit.items())) if vn else "-"
    nat = p.get("native", [])
    kc = [k for k in p.get("kani", []) if k.get("kind", "complete") == "complete"]
    kb = [k for k in p.get("kani", []) if k.get("kind") == "bounded"]
    ev = None
    ep = "/verif/evidence/%s.json" % pid
    if os.path.exists(ep):
        ev = json.load(open(ep))
    rows.append("| %s | %s | %s | %s | %s | %s | %s |" % (
        pid, p.get("level"), vtxt,
        ", ".join(k["id"] + (" (thorough)" if k.get("tier") == "thorough" else "") for k in kc) or "-",
        "; ".join("%s%s: %s" % (k["id"], " (thorough)" if k.get("tier") == "thorough" else "", k.get("bound", "")) for k in kb) or "-",
        "; ".join("%s%s" % (k["id"], " (thorough)" if k.get("tier") == "thorough" else "") for k in nat) or "-",
        p.get("not_decided", "")))
status = "\n".join(rows)
status += "\n\nNot applicable (MANIFEST `not_applicable`, reasons there and in Part II section 4): C03, C16, C19.  (C02, C05, C13 and C18, listed as not applicable in Part II, are claimed since the units `freeuntil`, `rollback`, `compact` and `gapcheck` / `splice` exist - see I.7.)\n"
seen = []
for p in reg["properties"].values():
    for a in p.get("assumptions", []):
        if a not in seen:
            seen.append(a)
status += "\nAssumptions that remain (also printed in every evidence file):\n\n" + "\n".join("* " + a for a in seen) + "\n"
status += "\nVerus units and what verifies in each on the unchanged tree (obligations.baseline.json): " + "; ".join(
    "`%s` %d" % (u, len(v)) for u, v in base["verus"].items()) + ".\n"
srows = ["| seeded change | breaks | what it needs to manifest | caught by | how | history |", "|---|---|---|---|---|---|"]
for mp in sorted(glob.glob("/verif/seeded/*/meta.json")):
    m = json.load(open(mp))
    srows.append("| %s | %s | %s | %s | %s | %s |" % (m["id"], m.get("property"), m.get("needs", "").replace("|", "/"), m.get("caught_by", "not caught"), m.get("how", "").replace("|", "/"),
                 m.get("first_evaluation", "caught by the checks that existed when it was delivered")))
seeded = "\n".join(srows)
d = open("/verif/DESIGN.md").read()
def put(tag, text):
    global d
    b, e = "<!-- %s:BEGIN -->" % tag, "<!-- %s:END -->" % tag
    if b in d:
        d = d[:d.index(b) + len(b)] + "\n" + text + "\n" + d[d.index(e):]
    else:
        d = d.replace("@@%s@@" % tag, b + "\n" + text + "\n" + e)
put("STATUS", status)
put("SEEDED", seeded)
open("/verif/DESIGN.md", "w").write(d)
print("ok")

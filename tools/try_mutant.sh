#!/bin/bash
# usage: try_mutant.sh <patch.diff> <property...>   runs the checks against a scratch copy of /repo with the patch applied
HERE=$(cd "$(dirname "$0")/.." && pwd)
P=$(readlink -f "$1"); shift
D=/var/tmp/mutrepo.$$
REPO=${VERIF_REPO:-/repo}
rsync -a --exclude target --exclude .git $REPO/ $D/
(cd $D && patch -p1 -s < $P) || { echo "patch failed"; rm -rf $D; exit 3; }
for prop in "$@"; do
  out=$(cd $HERE && VERIF_REPO=$D VERIF_EVIDENCE_DIR=$D/.evidence VERIF_REPLAY_DIR=$HERE/replay ./check $prop 2>&1 | grep -E "^(VIOLATION|UNDECIDED|OK|KNOWN)" | head -3)
  echo "$prop: $out"
done
rm -rf $D

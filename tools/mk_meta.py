#!/usr/bin/env python3
"""mk_meta.py <id> <property> <caught_by or '-'> <needs> <how>   -> writes /verif/seeded/<id>/meta.json (merges confirm.json)"""
import json, os, sys
mid, prop, caught, needs, how = sys.argv[1:6]
d = "/verif/seeded/" + mid
m = {"id": mid, "property": prop, "needs": needs, "caught_by": (caught if caught != "-" else "not caught"), "how": how,
     "source": "independent sub-agent given only the property text and its own scratch worktree",
     "ran": "tools/confirm_mutant.sh: demo on unchanged code (must pass), demo with patch (must fail), existing suite with patch (448 must pass); then the check with the patch applied"}
cj = os.path.join(d, "confirm.json")
if os.path.exists(cj):
    m["confirmation"] = json.load(open(cj))
json.dump(m, open(os.path.join(d, "meta.json"), "w"), indent=1)
print(m)

#!/usr/bin/env python3
"""Generates /verif/obligations.json (the registry of units, harness files, obligations per property)."""
import json
ST = ["xxh3_checksum", "fmt :: format"]
SF = ["fmt :: format"]


def k(id_, harness, kind="complete", **kw):
    d = {"id": id_, "harness": harness, "kind": kind}
    d.update(kw)
    return d


K = {
    "C01-K1": k("C01-K1", "c01_k1_slot_roundtrip", stubs=ST),
    "C01-K2": k("C01-K2", "c01_k2_god_byte_only", stubs=ST),
    "C01-K3": k("C01-K3", "c01_k3_select_primary", covers=2, stubs=SF),
    "C11-K4": k("C11-K4", "c11_k4_finalize_flags", "bounded", stubs=ST, covers=2, bound="page size 4096, regions of 1 header page + 1024 data pages; every stored region count, every u64 file length"),
    "C01-K4": k("C01-K4", "c01_k4_finalize_uses_file_len", stubs=ST, covers=2, tier="thorough",
                bound="page size 4096 (every region geometry, every u64 file length): loop-free, complete for that page size"),
    "C01-K4b": k("C01-K4b", "c01_k4b_finalize_rejects_truncation", stubs=ST, covers=1, tier="thorough", bound="page size 4096"),
    "C01-K6a": k("C01-K6a", "c01_k6_ids_increase"),
    "C01-K6b": k("C01-K6b", "c01_k6_reserve_never_lowers", covers=2),
    "C04-L1v": k("C04-L1v", "c04_l1_leaf_roundtrip_var_var_2x2", "bounded", stubs=ST, bound="2 pairs, keys and values <= 2 bytes, variable/variable widths", tier="thorough"),
    "C04-L1f": k("C04-L1f", "c04_l1_leaf_roundtrip_fixed_fixed_3", "bounded", stubs=ST, bound="3 pairs, 1-byte fixed keys and values"),
    "C04-L2": k("C04-L2", "c04_l2_leaf_position_fixed_3", "bounded", covers=2, bound="3 strictly increasing u8 keys, every query byte"),
    "C04-T1": k("C04-T1", "c04_t1_leaf_thresholds", covers=2),
    "C06-K1": k("C06-K1", "c06_k1_horizon_cutoff", covers=2),
    "C06-K2": k("C06-K2", "c06_k2_page_list_bounded3", "bounded", covers=1, bound="<= 3 page numbers per record"),
    "C07-K1s": k("C07-K1s", "c07_k1_savepoint_roundtrip_some", stubs=SF),
    "C07-K1n": k("C07-K1n", "c07_k1_savepoint_roundtrip_none", stubs=SF),
    "C09-K1": k("C09-K1", "c09_k1_subtree_collection_roundtrip"),
    "C09-K2": k("C09-K2", "c09_k2_inline_collection_bounded3", "bounded", covers=1, bound="inline leaf of <= 3 one-byte values"),
    "C10-F1": k("C10-F1", "c10_f1_page_number_layout"),
    "C10-F2": k("C10-F2", "c10_f2_btree_header_layout"),
    "C10-F3": k("C10-F3", "c10_f3_slot_layout", stubs=ST),
    "C10-F4": k("C10-F4", "c10_f4_header_layout", stubs=ST),
    "C10-F6a": k("C10-F6a", "c15_f_txn_with_pagination"),
    "C11-R3": k("C11-R3", "c11_r3_allocator_state_key"),
    "C12-K1K2": k("C12-K1K2", "c12_k1k2_corrupt_slot_verbatim", stubs=ST, covers=2),
    "C12-K2b": k("C12-K2b", "c12_k2b_new_commit_clears_corrupt_bytes"),
    "C12-K4": k("C12-K4", "c12_k4_version_gate", stubs=ST),
    "C17-K1": k("C17-K1", "c17_k1_check_match_u64_str", "bounded", stubs=SF, covers=2, bound="type names from a pool of 4 (u64, &str, a user type named u64, u32); kind, widths (u8), alignments (u8) fully symbolic"),
    "C20-L1": k("C20-L1", "c20_l1_latch_step", covers=3),
    "C20-L2a": k("C20-L2a", "c20_l2_close_then_nothing", covers=2),
    "C20-L2b": k("C20-L2b", "c20_l2_drop_closes_once"),
    "C20-L3a": k("C20-L3a", "c20_l3_readonly_forwards_reads"),
    "C20-L3b": k("C20-L3b", "c20_l3_readonly_blocks_mutation", allow_fail=["entered unreachable code"]),
}
FIXED = ["u8", "u16", "u32", "u64", "u128", "i8", "i16", "i32", "i64", "i128", "char", "bool", "unit", "option_u8", "option_u64",
         "array_u16x2", "byte_array4", "tuple_u8_u16", "tuple_u64_u64_u8", "savepoint_id", "txn_with_pagination"]
for t in FIXED:
    K["C15-F-" + t] = k("C15-F-" + t, "c15_f_" + t)
K["C15-F-varint"] = k("C15-F-varint", "c15_f_varint_len_roundtrip", covers=3)
K["C15-B-bytes"] = k("C15-B-bytes", "c15_b_bytes_separator_l3", "bounded", covers=2, bound="&[u8] keys of length <= 3")
K["C15-B-optbytes"] = k("C15-B-optbytes", "c15_b_option_bytes_separator_l2", "bounded", covers=1, bound="Option<&[u8]> with payload <= 2 bytes")
K["C15-B-str"] = k("C15-B-str", "c15_b_str_separator_l3", "bounded", covers=1, bound="&str / String keys of <= 3 bytes (all valid UTF-8 of that length)", tier="thorough")
K["C15-B-lcp"] = k("C15-B-lcp", "c15_b_common_prefix_spec_l3", "bounded", bound="slices of length <= 3 (twin of the assumed spec of common_prefix_len, rule R4)")
K["C15-B-utf8"] = k("C15-B-utf8", "c15_b_utf8_prefix_axiom_l4", "bounded", bound="strings of <= 4 bytes (twin of the assumed UTF-8 prefix axiom T7)", tier="thorough")


def alias(src, new_id):
    d = dict(K[src])
    d["id"] = new_id
    return d


ALLOC_CORE = ["U64GroupedBitmap::*", "BtreeBitmap::*", "BuddyAllocator::*", "BS::*", "RegionTracker::*", "Allocators::*", "InMemoryState::*", "DatabaseHeader::*",
              "PageNumber::*", "TransactionalMemory::try_shrink", "TransactionalMemory::grow", "TransactionalMemory::free_helper", "TransactionalMemory::free", "lemma_*", "bits_in_range", "buddy_page", "next_higher_order", "calculate_usable_order", "min_u8", "max_u32"]
LAYOUT = ["RegionLayout::*", "DatabaseLayout::*", "round_up_to_multiple_of", "lemma_mul_le", "lemma_div_exact", "lemma_round_up"]

reg = {
    "units": {
        # rlimit 40: the two loops of alloc_lowest need 5-32 M resource units depending on solver-internal naming (default limit 10 = 30 M)
        "alloc": {"overlay": "units/alloc.ovl", "canaries": ["canary_alloc"], "rlimit": 40,
                  # executable functions defined in the overlay rather than extracted from /repo: rule helpers (T4)
                  "helpers": ["xxh3_checksum", "div_ceil_u32", "pow2_u32", "vec_reverse", "min_u8", "max_u32", "min_u32", "pow2_u64", "max_u64", "fmt_msg", "from", "contains",
                              # models of what the page-manager protocol functions call into (Mutex, storage trace, unpersisted set)
                              "lock", "drop", "gt_id", "clone", "check_io_errors", "flush", "resize", "sync_file", "close", "write_barrier",
                              "invalidate_cache", "cancel_pending_write", "clear", "extend", "claim", "remove", "write_header",
                              "debug_assert_no_dirty_pages", "flush_shutdown_header"]},
        # the binary searches of the leaf / branch accessors and the bound test of the range cursor, over an abstract page and an abstract total order
        "search": {"overlay": "units/search.ovl", "canaries": ["canary_search"], "helpers": ["key_unchecked", "key", "child_page", "compare"]},
        # the double-ended cursor over the inline values of one multimap key
        "mmiter": {"overlay": "units/mmiter.ovl", "canaries": ["canary_mmiter"], "helpers": ["key_at"]},
        # the open-tables bookkeeping of a write transaction over a ghost log of catalog operations
        "tablens": {"overlay": "units/tablens.ovl", "canaries": ["canary_tablens"],
                    "helpers": ["caller", "get_root", "get", "insert", "remove", "is_empty", "get_or_create_table", "clear_pending_table_update",
                                "rename_table", "delete_table", "stage_update_table_root", "set_root"]},
        # the eviction loop of the write buffer over a ghost map (stripe) and a ghost log of accepted writes (backend)
        "wbuf": {"overlay": "units/wbuf.ovl", "canaries": ["canary_wbuf"],
                 "helpers": ["len", "pop_lowest_priority", "insert", "write", "write_best_effort", "fetch_sub"]},
        # the step order of WriteTransaction::commit_inner_helper over a ghost log of the steps that reach the layers below
        "txcommit": {"overlay": "units/txcommit.ovl", "canaries": ["canary_txcommit"],
                     "helpers": ["lock", "from", "into_iter", "collect", "is_empty", "system_freed_pages", "drop_unpersisted_data_freed_after",
                                 "take_post_commit_allocations", "record_unpersisted_data_freed", "flush_and_close", "adopt_unpersisted", "page_allocator",
                                 "store_data_freed_pages", "non_durable_commit", "durable_commit", "apply_savepoint_state_on_commit",
                                 "needs_repair", "mark_needs_repair", "clear_needs_repair", "check_io_errors", "abort_inner_impl"]},
        # the catalog walk and the multimap subtree walk between dbverify and merkle
        "tableverify": {"overlay": "units/tableverify.ovl", "canaries": ["canary_tableverify"],
                        "helpers": ["clone", "get_page", "new", "verify_checksum", "fixed_width", "fixed_width_with", "next", "parse_subtree_roots", "value", "range", "hint"]},
        # the release of a deleted table's pages (fragment of TableTreeMut::delete_table)
        "restorequeue": {"overlay": "units/restorequeue.ovl", "canaries": ["canary_restorequeue"],
                         "helpers": ["lock", "from", "get_transaction_id", "ignore", "reset", "uncommitted", "free", "page_allocator", "len", "get", "value", "next", "range", "open_system_table",
                                     "is_allocated", "unpersisted_allocations_after"]},
        "txepilogue": {"overlay": "units/txepilogue.ovl", "canaries": ["canary_txepilogue"],
                       "helpers": ["lock", "drop", "ignore", "commit", "non_durable_commit", "record_unpersisted_allocations", "get_last_durable_transaction_id", "free_if_unpersisted",
                                   "clear_pending_non_durable_commits", "register_non_durable_commit", "take_allocated_since_commit", "free", "drain", "next", "page_allocator"]},
        "dbopen": {"overlay": "units/dbopen.ovl", "canaries": ["canary_dbopen"],
                   "helpers": ["from", "new", "aborted", "next", "load_allocator_state", "get_last_committed_transaction_id", "commit", "begin_writable", "get_allocator_state_table", "do_repair"]},
        "integrity": {"overlay": "units/integrity.ovl", "canaries": ["canary_integrity"],
                      "helpers": ["from", "next", "allocator_hash", "get_data_root", "get_system_root", "clear_cache_and_reload", "get_last_committed_transaction_id", "commit",
                                  "clear_needs_repair", "begin_writable", "reserve_repair_transaction_id", "do_repair_quiet", "roots_differ"]},
        "openproto": {"overlay": "units/openproto.ovl", "canaries": ["canary_openproto"],
                      "helpers": ["invalid_data", "from", "max", "div_ceil_u32", "fmt_msg", "new", "calculate", "len", "to_bytes", "from_bytes", "recovery_required", "finalize",
                                  "to_vec", "try_into", "copy_from_slice", "mem_mut", "raw_file_len", "read_direct", "resize", "write", "flush"]},
        "reload": {"overlay": "units/reload.ovl", "canaries": ["canary_reload"],
                   "helpers": ["lock", "from", "len", "layout", "to_bytes", "from_bytes", "finalize", "copy_from_slice", "mem_mut", "discard_write_buffer", "invalidate_cache_all",
                               "sync_file", "flush", "read_direct", "raw_file_len", "write", "clear"]},
        "splice": {"overlay": "units/splice.ovl", "canaries": ["canary_splice"],
                   "helpers": ["drop", "into_iter", "rev", "next", "get_page_number", "new", "key", "replace_branch_child", "rebuild_branch_level", "build_branch_nodes",
                               "conditional_free", "compare", "fixed_width"]},
        "mmremove": {"overlay": "units/mmremove.ovl", "canaries": ["canary_mmremove"],
                     "helpers": ["lock", "drop", "borrow", "fixed_width", "memory", "new", "total_length", "num_pairs", "make_inline_data", "make_subtree_data", "insert", "remove",
                                 "get_root", "ignore", "conditional_free", "get_page_size", "get_page"]},
        "tabledel": {"overlay": "units/tabledel.ovl", "canaries": ["canary_tabledel"], "helpers": ["lock", "drop", "from", "remove", "free_if_uncommitted", "uncommitted", "free"]},
        # ReadOnlyDatabase::new over models of its callees
        "roopen": {"overlay": "units/roopen.ovl", "canaries": ["canary_roopen"],
                   "helpers": ["from", "new", "next", "load_allocator_state", "get_last_committed_transaction_id", "get_allocator_state_table"]},
        # the decision procedure of crash recovery over a ghost model of the two commit slots
        "repair": {"overlay": "units/repair.ovl", "canaries": ["canary_repair"],
                   "helpers": ["from", "new", "aborted", "clone", "used_two_phase_commit", "repair_primary_corrupted", "clear_read_cache",
                               "clear_recovery_required", "verify_primary_checksums", "rebuild_allocator_state"]},
        # begin_write over models of its callees
        "beginwrite": {"overlay": "units/beginwrite.ovl", "canaries": ["canary_beginwrite"],
                       "helpers": ["from", "start_write_transaction", "new_write", "new", "check_io_errors", "allocator_state_loaded"]},
        # the decision whether an open may trust the saved allocator state
        "openstate": {"overlay": "units/openstate.ovl", "canaries": ["canary_openstate"],
                      "helpers": ["into_storage_error_or_corrupted", "untracked", "new", "clone", "used_two_phase_commit", "get_system_root",
                                  "is_valid_allocator_state", "get_table"]},
        # the allocation records written by a durable commit (fragment of flush_data_allocated_pages)
        "allocrec": {"overlay": "units/allocrec.ovl", "canaries": ["canary_allocrec"],
                     "helpers": ["lock", "open_system_table", "into_iter", "collect", "next", "take_unpersisted_allocations", "write_allocated_pages_entry"]},
        # the catalog walk of compaction: relocated tables keep their entry count
        "relocate": {"overlay": "units/relocate.ovl", "canaries": ["canary_relocate"],
                     "helpers": ["clone", "set_header", "get_length", "relocate_tree", "to_string", "value", "key", "next", "range", "relocate", "get", "insert"]},
        # the page-rebuild path of the mutable access guard
        "guardmut": {"overlay": "units/guardmut.ovl", "canaries": ["canary_guardmut"],
                     "helpers": ["as_ref", "write_child_page", "new", "memory", "memory_mut", "get_page_number", "key", "value", "num_pairs", "entry",
                                 "free_if_uncommitted", "push", "build"]},
        # the copy-on-write step and the branch disposition of the B-tree mutator
        "cow": {"overlay": "units/cow.ovl", "canaries": ["canary_cow"],
                "helpers": ["drop", "get_page_number", "new", "child_page", "child_checksum", "count_children", "write_child_page", "memory_mut",
                            "uncommitted", "get_page_mut", "push_all", "replace_child", "build", "to_single_child", "required_bytes", "into_parts",
                            "conditional_free", "get_page_size", "push_all_except_deleted", "min_usize", "key", "push_child", "push_key"]},
        # the root update after a deletion, and MutateHelper::delete_key
        "rootupd": {"overlay": "units/rootupd.ovl", "canaries": ["canary_rootupd"],
                    "helpers": ["get_page_number", "get_page", "new", "num_pairs", "build", "push_child", "push_key", "push_all_except_deleted", "delete_helper",
                                "apply_child_deletion_result", "delete_leaf_at_position", "delete_leaf_indexes"]},
        # the root update after an insertion
        "rootins": {"overlay": "units/rootins.ovl", "canaries": ["canary_rootins"],
                    "helpers": ["get_page_number", "get_page", "new", "num_pairs", "build", "push_child", "push_key", "as_ref", "len", "memory",
                                "offset_of_first_value", "push", "push_sep", "insert_helper", "as_bytes", "fixed_width"]},
        # insert beside a single huge pair: leaf order, checksums, separator bounds
        "bigpair": {"overlay": "units/bigpair.ovl", "canaries": ["canary_bigpair"],
                    "helpers": ["len", "to_vec", "to_owned", "into_owned", "branch_separator", "key", "new", "entry", "last_entry", "offset_of_first_value", "get_page_number", "memory", "push", "build", "fixed_width"]},
        # the purge of freed-page records at a savepoint restore
        "restore": {"overlay": "units/restore.ovl", "canaries": ["canary_restore"],
                    "helpers": ["lock", "from", "next", "raw_id", "get_transaction_id", "extract_from_if", "close", "open_system_table"]},
        "types_sep": {"overlay": "units/types_sep.ovl", "canaries": ["canary_types_sep"], "helpers": ["common_prefix_len"]},
        # the page-level checksum walk over an abstract page store
        "merkle": {"overlay": "units/merkle.ovl", "canaries": ["canary_merkle"],
                   "helpers": ["memory", "get_page", "leaf_checksum", "branch_checksum", "new", "count_children", "child_page", "child_checksum"]},
        # glue code verified against assumed, uninterpreted callee contracts (tree_ok)
        "dbverify": {"overlay": "units/dbverify.ovl", "canaries": ["canary_dbverify"],
                     "helpers": ["get_data_root", "get_system_root", "new", "clone", "untracked", "verify_checksums"]},
    },
    "kani_files": {
        "h_header.rs": "src/tree_store/page_store/header.rs",
        "h_cached_file.rs": "src/tree_store/page_store/cached_file.rs",
        "h_backends.rs": "src/tree_store/page_store/backends.rs",
        "h_base.rs": "src/tree_store/page_store/base.rs",
        "h_tracker.rs": "src/transaction_tracker.rs",
        "h_transactions.rs": "src/transactions.rs",
        "h_multimap.rs": "src/tree_store/multimap_btree.rs",
        "h_savepoint.rs": "src/tree_store/page_store/savepoint.rs",
        "h_table_tree_base.rs": "src/tree_store/table_tree_base.rs",
        "h_types.rs": "src/types.rs",
        "h_complex_types.rs": "src/complex_types.rs",
        "h_btree_base.rs": "src/tree_store/btree_base.rs",
        "x_buddy.rs": "src/tree_store/page_store/buddy_allocator.rs",
        "x_region.rs": "src/tree_store/page_store/region.rs",
        "x_tracker.rs": "src/transaction_tracker.rs",
        "x_unpersisted.rs": "src/tree_store/page_store/page_manager.rs",
        "x_spstate.rs": "src/transactions.rs",
        "x_leafmut.rs": "src/tree_store/btree_base.rs",
    },
    # bounded Kani twins of Verus obligations: run only after a Verus refutation, to look for a concrete failing input
    "twins": {
        "types_sep/str_separator": {"harness": "c15_b_str_separator_l3", "bound": "&str keys of <= 3 bytes", "timeout": 2400},
        "types_sep/bytes_separator": {"harness": "c15_b_bytes_separator_l3", "bound": "&[u8] keys of <= 3 bytes", "timeout": 900},
        "types_sep/round_up_to_char_boundary": {"harness": "c15_b_str_separator_l3", "bound": "&str keys of <= 3 bytes", "timeout": 2400},
    },
    "trusted_base": [
        "T1 rustc, Kani 0.68 / CBMC 6.11 / CaDiCaL, Verus 0.2026.09.13 / Z3 are sound",
        "T2 Kani's models of std (allocation, Arc, Mutex on one thread, atomics as plain cells) match the real ones on one thread",
        "T3 vstd's specifications of Vec, Option, integer operations, leading/trailing_zeros, is_multiple_of",
        "T4 external_body helpers of the extraction rules: pow2_u32 / pow2_u64 (spec 2^e), div_ceil_u32 (spec ceil(x/y)), vec_reverse; external_body functions of the alloc unit whose bodies Verus cannot read: xxh3_hash, to_vec, from_bytes (all three structures), count_unset, any_unset, check_allocated_pages",
        "T8 the checksum is SOME deterministic function of its input (Kani stub stub_xxh3); nothing claimed depends on collision resistance",
        "T10 machine integers: Verus checks overflow of every executable operation; Kani checks overflow too (no mathematical-integer shortcut)",
        "T12 the extractor's rule table preserves meaning (rules and firing counts are printed in this file)",
        "T13 termination is not proved for anything verified only with Kani; allocate_helper_retry's retry loop has exec_allows_no_decreases_clause",
    ],
    "assumptions_common": [],
    "extraction_drops": [
        "#[cfg(test)] modules and #[cfg(..)] statements/blocks inside function bodies (debug_check_consistency calls: its content is invariant I1/I2, which Verus proves instead)",
        "`use` lines (replaced by a fixed prelude), doc comments, outer attributes of items (derive lists are re-stated as annotations)",
        "visibility qualifiers (every extracted item and field is `pub` so that specifications may mention it)",
        "functions not named in the overlay (the unit contains only the items listed under coverage.extraction)",
    ],
    "properties": {},
}
P = reg["properties"]
NATIVE = {
    "X-resize": {"id": "C14-X-resize", "test": "x14_resize_contract", "bound": "capacities {1,2,7,16,33,64}; every initial size; states reached by <= 2 allocations (orders 0..3) and <= 1 free; every new size; I1/I2 checked by redb's own debug_check_consistency after each resize"},
    "X-hfo": {"id": "C14-X-hfo", "test": "x14_highest_free_order_contract", "bound": "same states"},
    "X-ser": {"id": "C14-X-ser", "test": "x14_serialize_roundtrip", "bound": "same states: to_vec/from_bytes preserves every bit of every order, len, max_order, the hash, and the next allocation of each order"},
    "X-trk-resize": {"id": "C14-X-trk-resize", "test": "x14_region_tracker_resize_contract", "bound": "1..70 regions grown by 0..70, 8 mark patterns"},
    "X-pins3": {"id": "X-pins3", "test": "xb_tracker_contracts_depth3", "bound": "every sequence of <= 3 calls of the 9 mutating TransactionTracker functions over transaction ids {1,2,3} and savepoint ids {1,2,3,4..}; per-call contract with full frame against a ghost model (pin counts, savepoints, pending non-durable commits), all 12 observers compared after every call"},
    "X-pins4": {"id": "X-pins4", "test": "xb_tracker_contracts_depth4", "bound": "same, <= 4 calls", "tier": "thorough"},
    "X-unp3": {"id": "X-unp3", "test": "xb_unpersisted_contracts_depth3", "bound": "every sequence of <= 3 calls of the 11 mutating UnpersistedState operations over 3 pages and transaction ids {1,2,3}; per-call contract with full frame against a ghost model, representation invariant (allocation_txn is the reverse index of allocations, no empty records, post_commit_allocations subset of pages), allocations_after / data_freed_in_range(all bounds) / pages_pending_free / contains compared after every call"},
    "X-unp4": {"id": "X-unp4", "test": "xb_unpersisted_contracts_depth4", "bound": "same, <= 4 calls over 2 pages", "tier": "thorough"},
    "X-spstate": {"id": "X-spstate", "test": "xb_savepoint_state_contracts", "bound": "every combination of <= 3 persistent savepoints on 2 transactions (shared transactions included), every subset recorded as created / deleted (both orders) / invalidated, apply_on_commit and apply_on_abort: validity of every savepoint, the exact multiset of pins left in the tracker, and the emptied local state"},
    "X-leafmut4": {"id": "X-leafmut4", "test": "xb_leaf_mutator_contracts_n4", "bound": "every leaf of <= 4 pairs with key and value lengths 0..=2 (fixed width: 1), all four fixed/variable width combinations, with and without slack in the page; LeafMutator::insert at every position with key/value lengths 0..=3, remove at every position, replace at every position with lengths 0..=3, remove_indices with every non-empty proper index subset; afterwards the REAL LeafAccessor reads exactly the expected pair sequence and the first total_length() bytes equal the leaf RawLeafBuilder writes for it"},
    "X-leafmut5": {"id": "X-leafmut5", "test": "xb_leaf_mutator_contracts_n5", "bound": "same, <= 5 pairs", "tier": "thorough"},
    "X-trk-ser": {"id": "C14-X-trk-ser", "test": "x14_region_tracker_roundtrip", "bound": "1..130 regions, 8 mark patterns"},
}
P["C14"] = {
    "level": "proof",
    "native": [NATIVE[k] for k in ("X-resize", "X-hfo", "X-ser", "X-trk-resize", "X-trk-ser")],
    "verus": [{"unit": "alloc", "functions": ALLOC_CORE + LAYOUT}],
    "kani": [],
    "explanation": "Every clause of the statement is a postcondition over the set of free pages (free_set = {p | st().cov(0,p)}) of the REAL bodies of bitmap.rs, buddy_allocator.rs, region.rs and allocate_helper_retry, extracted from /repo on every run and verified by Verus for all sizes, orders and states: blocks handed out lie inside the region and were free (alloc/alloc_inner, and alloc_lowest with its allocate-compare-free-split loops), refusal only when nothing of that order or larger is free (with lemma_bridge: no aligned free block exists), free makes exactly the block's pages free and merges with free buddies (I2), record_alloc marks exactly the block or refuses leaving the state unchanged, I1 (no page free at two orders) and I2 (buddies always merged) are established by new() and preserved; the region tracker never reports full a region holding a suitable free block (TRK) - established by Allocators::new, preserved by allocate_helper_retry.",
    "not_decided": "the debug-only bookkeeping of TransactionalMemory::free_helper (rule R9; the rest of the function is verified whole); serialisation round trip beyond the bounded native check C14-X-ser (to_vec/from_bytes are external_body for Verus); the body of highest_free_order (see assumptions); growing an allocator from zero pages (resize's precondition excludes it: the real code would compute 2^32 there; no caller does it); minimality of alloc_lowest's result (its contract is alloc's: the returned block was free, exactly it was removed)",
    "assumptions": ["BuddyAllocator::highest_free_order carries an ASSUMED contract (external_body: `(0..=max_order).rev().find(closure)`, an iterator-adapter chain Verus cannot read): it returns the highest order at which some block is marked free, or None when nothing is; the bounded native check C14-X-hfo runs the real body against it. Every other function of bitmap.rs, buddy_allocator.rs, region.rs and layout.rs is VERIFIED, including BuddyAllocator::resize (both branches: bitmaps resized, the trailing_zeros alignment loop, the descending-order loop; pages below min(old, new) keep their state, new pages are free, a shrink frees nothing; requires that the bitmaps are high enough for the new size - established by BuddyAllocator::new for the capacity of a full region and carried by Allocators::cap_ok - and that an allocator is never grown from zero pages), BtreeBitmap::resize and RegionTracker::resize (rule R14 turns their `for x in &mut v` loops into index loops), Allocators::resize_to, try_shrink and grow"],
}
P["C20"] = {
    "level": "proof",
    "verus": [{"unit": "alloc", "functions": LAYOUT + ["BuddyAllocator::trailing_free_pages", "BuddyAllocator::find_free_order", "PageNumber::*",
                                              "TransactionalMemory::try_shrink", "TransactionalMemory::grow", "TransactionalMemory::commit", "TransactionalMemory::close", "TransactionalMemory::mark_page_allocated", "TransactionalMemory::check_page_order", "Mutex::lock", "drop", "max_u64", "InMemoryState::get_region", "InMemoryState::allocators", "InMemoryState::allocators_mut",
                                              "DatabaseHeader::*", "Allocators::resize_to", "Allocators::lemma_resize_shrink", "Allocators::lemma_grow_step_*", "lemma_pow2_shift"]},
              {"unit": "roopen", "functions": ["ReadOnlyDatabase::new"]},
              {"unit": "openproto", "functions": ["TransactionalMemory::open_protocol"]}],
    "kani": [K["C20-L1"], K["C20-L2a"], K["C20-L2b"], K["C20-L3a"], K["C20-L3b"]],
    "explanation": "Kernel: (A1) every page of every region of a valid layout ends inside layout.len() (lemma_page_in_bounds over the real layout.rs accessors); (A2) reduce_last_region shortens the layout by exactly the pages cut (plus the region header when the region disappears) and recalculate(file_len) never extends past the file; (A3) calculate(d) offers at least d usable bytes; (A4) never shrinks below a page still in use: the pages trailing_free_pages reports are all free, and the REAL try_shrink cuts at most those pages from the last region (reduce_last_region), hands resize_to a layout whose removed pages are all free, keeps the allocator state consistent with the header layout, and never lengthens the layout; the REAL TransactionalMemory::commit truncates the file (storage.resize) only after the header carrying the shorter layout has been written and synced, to exactly that layout's length; the REAL TransactionalMemory::grow extends the file to exactly the new layout's length and syncs it BEFORE the allocator state and the header adopt the larger layout, leaves the state untouched when either step fails, never shortens the layout, makes room for the allocation that asked for it, and keeps every region but the last as it was; the REAL TransactionalMemory::close reaches the backend's close() exactly once, as the last event, also when the shutdown writes failed; (L1) the I/O-failure latch is inductive and nothing reaches the backend once it is set; (L2) close() reaches the backend once and nothing afterwards; (L3) the read-only wrapper forwards no mutation; (OP) the REAL open protocol of TransactionalMemory::new (fragment: from the first length query to the header rewrite of recovery) over a storage model in which every read and write carries 'offset + len <= current length' as its PRECONDITION: the magic number is read only from a file long enough to hold it, the header only from a file at least a header long (a shorter file that carries the magic number is refused as corrupted - the genuine defect repaired by the second fix commit, see known_findings.json), a new file is resized to its layout before the header is written and gets its magic number only in a second write after a flush, an empty file is initialised only on request, and a read-only open that may not initialise issues nothing but reads; (RO) the REAL ReadOnlyDatabase::new wraps the file in the read-only backend, opens the page store read-only and WITHOUT permission to initialise the file, and gives up with RepairAborted instead of repairing when no saved allocator state is usable.",
    "assumptions": ["O1 (openproto unit): the storage is its current length and the trace of reads / resizes / writes / flushes that reached it; raw_file_len reports the length; resize sets it; what is written through a page handle reaches the file; the header parser's verdicts are uninterpreted functions of the bytes read; DatabaseLayout::calculate yields a layout at least one page long (verified in unit alloc: A3); the serialised region tracker of 1000 regions is below 256 MiB; page sizes up to 64 KiB, 64-bit usize; error messages dropped (local format!)"],
    "not_decided": "'exactly once' across Database / transaction hand-off on threads; failing opens through Builder above TransactionalMemory::new; page numbers followed from a corrupted branch page on the READ path (get_page; mark_page_allocated validates the page numbers of the rebuild against the layout); flush_shutdown_header (assumed not to close the backend); allocate_helper's call of grow (it holds the state lock across the call)",
}
P["C08"] = {
    "level": "proof",
    "kani": [alias("C20-L1", "C08-K1"), alias("C20-L2a", "C08-K2")],
    "verus": [{"unit": "alloc", "functions": ["TransactionalMemory::commit", "TransactionalMemory::non_durable_commit", "Mutex::lock", "drop"]},
              {"unit": "wbuf", "functions": ["PagedCachedFile::flush_lowest_priority", "PagedCachedFile::lemma_evict_step"]},
              {"unit": "beginwrite", "functions": ["begin_write_with_allocation_policy"]}],
    "assumptions": ["W1 (wbuf unit): a stripe of the write buffer is the map offset -> page it holds (pop_lowest_priority removes and returns some entry or nothing, insert adds one), the backend is the log of the writes it accepted (a failing write or write_best_effort adds nothing); sizes: at most 2^28 pages of at most 2^28 bytes per stripe, 64-bit usize",
                    "T9 (storage model of the alloc unit): every fallible PagedCachedFile entry point is refused without reaching the storage once the latch is set, sets the latch when it fails, and check_io_errors() reports exactly the latch - the latch itself is what the Kani harnesses C08-K1/K2 prove on the real CheckedBackend"],
    "explanation": "Kernel: once any backend call has failed every later len/read/set_len/sync_data/write is refused without reaching the backend (one symbolic step from an arbitrary latch state = induction over call sequences of any length); (V) the REAL TransactionalMemory::commit and non_durable_commit consult the latch before anything else: with the latch set they return Err and change nothing (no event reaches the storage, no header is published, the unpersisted set is untouched), and non_durable_commit acknowledges (Ok) exactly when the latch is clear; (B) the REAL begin_write_with_allocation_policy (behind Database::begin_write) hands out no write transaction once an I/O failure was seen, nor on top of an allocator state discarded by a failed commit or integrity check (Corrupted); (W) the REAL eviction loop of the write buffer (PagedCachedFile::flush_lowest_priority, both Required and BestEffort write-back): a buffered page leaves the write buffer only after the backend accepted exactly it, the pages still buffered are unchanged, nothing else reaches the backend, and when a write fails the page is back in the buffer and the error is returned - never swallowed; write_best_effort neither sets nor bypasses the latch; PreviousIo vs DatabaseClosed by the closed flag; after close() nothing reaches the backend.",
    "not_decided": "every failure index in every history; that begin_write re-checks the latch AFTER acquiring the write slot (one-thread model), what shutdown / WriteTransaction::commit_inner do with the latch; state after reopen; that callers above TransactionalMemory consult the latch",
}
P["C01"] = {
    "level": "proof",
    "kani": [K["C01-K1"], K["C01-K2"], K["C01-K3"], alias("C11-K4", "C01-K4q"), K["C01-K4"], K["C01-K4b"], K["C01-K6a"], K["C01-K6b"]],
    "verus": [{"unit": "alloc", "functions": ["DatabaseLayout::recalculate", "DatabaseLayout::len", "RegionLayout::len", "lemma_round_up", "lemma_div_exact", "lemma_mul_le"]},
              {"unit": "alloc", "functions": ["TransactionalMemory::commit", "TransactionalMemory::non_durable_commit", "TransactionalMemory::try_shrink", "DatabaseHeader::*", "lemma_xor1",
                                              "Mutex::lock", "drop", "TransactionId::gt_id"]},
              {"unit": "dbverify", "functions": ["Database::verify_checksums"]},
              {"unit": "repair", "functions": ["Database::do_repair", "Database::primary_verifies"]},
              {"unit": "dbopen", "functions": ["Database::open_decision"]},
              {"unit": "txepilogue", "functions": ["WriteTransaction::durable_commit_point", "WriteTransaction::non_durable_commit_point", "WriteTransaction::page_allocator", "Mutex::lock"]},
              {"unit": "openproto", "functions": ["TransactionalMemory::open_protocol"]}],
    "assumptions": ["E1 (txepilogue unit): the page store, the tracker and the allocator handle log what reaches them (TransactionalMemory::commit / non_durable_commit / free_if_unpersisted are verified on the real code in unit alloc); a failing page-store call changes nothing; the allocator handle is a field of the transaction model (rule RX); Vec::drain(..) hands out every element in order and leaves the queue empty (model iterator, rule R18); the parameters of the wrappers are what the dropped first halves of the two functions compute (roots, the queue of replaced system-tree pages, the set-aside unpersisted pages - distinct and unpersisted)", "D1 (dbopen unit): the page store logs load / repair / commit / begin_writable; get_allocator_state_table answers Some exactly when the saved state is valid (verified in unit openstate); do_repair yields the repaired roots (verified in unit repair); the repair callback may do anything to the session it is handed; rule RX: the array pattern became two index reads; `mem` is the page store itself instead of an Arc around it", "O1 (openproto unit): see C20", "R1 (repair unit): whether the trees of the current primary slot verify is a ghost flag of the page-store model (verify_primary_checksums returns it, and reports a Corrupted error only for trees that do not verify - the real walk is verified in dbverify / tableverify / merkle); repair_primary_corrupted swaps the two slots; rebuild_allocator_state and clear_recovery_required change only their own flag; the repair callback may do anything to the session it is handed (rule RX turns `&(dyn Fn(&mut RepairSession) + 'static)` into `&impl Fn(&mut RepairSession)`, `&mut Arc<TransactionalMemory>` into `&mut TransactionalMemory`, and the array pattern `let [a, b] = e?` into two index reads)",
                    "T9: TransactionalMemory::write_header hands the 320-byte image of exactly the header it is given to the storage layer, and PagedCachedFile::flush makes everything handed over before it durable; each appends its event to the ghost trace on success and its event or nothing on failure (assumed contracts of the storage model in the alloc unit; the page cache itself is not verified)",
                    "M1: std::sync::Mutex is modelled for ONE thread: lock() never fails and lends the protected value, drop(guard) returns it unchanged; the functions that reach state through &self take &mut self in the unit (rule RX on the signature); DatabaseHeader::clone copies every field; a 64-bit target (global size_of usize == 8)"],
    "explanation": "Kernel of the crash argument of docs/design.md: (K5) the REAL body of TransactionalMemory::commit (whole function, over a one-thread model of the state mutex and a ghost trace of the storage events) produces exactly W(h1) [F if two_phase] W(h2) F [Resize(len) if the commit trimmed the file], where h1 is the header (after the optional trim: same slots and flags, never a longer layout) with the new commit staged in the secondary slot and the OLD god byte, and h2 differs from h1 only in the primary bit and the 2PC bit; on a failing write or sync only a prefix of that sequence reaches the storage (the flip never precedes the sync it depends on, the file is cut only after the header with the shorter layout is durable); on success h2 is published, reads return to the primary and the unpersisted set is emptied; on failure the published header is NOT the new commit; with the I/O latch set nothing happens at all; non_durable_commit stages the commit in the in-memory secondary slot, sets read_from_secondary, adds the pages to the unpersisted set and reaches the storage with nothing; (R) the REAL decision procedure of crash recovery (Database::do_repair, primary_verifies): a repaired database runs on a primary slot whose trees verify; the other slot is used only when the primary did not verify, at most once, and never after a two-phase commit (whose primary must be intact: Corrupted is reported instead); the recovery flag is cleared only after the allocator state was rebuilt, and every failure - corruption of both slots, I/O error, abort by the callback - leaves it set so that the next open repairs again; a Corrupted error from the walk counts as 'does not verify', any other error propagates; (E) the REAL commit point of WriteTransaction::durable_commit hands TransactionalMemory::commit exactly this transaction's roots, id, commit strategy (one- or two-phase) and shrink policy, and touches nothing else before it returned Ok; (N) a NEW file gets its magic number only in a second header write, after the initialised header was flushed (REAL open protocol of TransactionalMemory::new, unit openproto); on open, a full repair ends with a two-phase commit of the repaired roots before the file is marked open-for-writing (REAL decision of Database::new, unit dbopen); (K1) a written commit slot decodes to itself and verifies; (K2) the commit point is ONE byte: flipping primary / 2PC / recovery flags changes only byte 9; (K3) slot selection never returns a slot that failed verification, keeps the primary under 2PC, otherwise the newer valid slot wins; (K4) with recovery_required the layout is rebuilt from the file length whatever the stored counts were (quick tier: one region geometry, C01-K4q - bounded; thorough tier: every geometry of page size 4096, C01-K4, 5-15 minutes of SAT solving; the unbounded counterpart is Verus DatabaseLayout::recalculate: the rebuilt layout never extends past the file); (K6) transaction ids strictly increase and reserving a repair id never lowers the next id.",
    "not_decided": "2^W write subsets, page data and checksums reaching the cache before the first header write (finalize_dirty_checksums, whole-program), what the page cache does with writes and flushes (assumed, T9), begin_writable / clear_recovery_required / flush_shutdown_header (they hold the state lock across calls on self, which the one-thread Mutex model cannot express), what WriteTransaction::durable_commit does BEFORE its commit point (freed-page processing, allocation records, allocator snapshot), concurrency, histories, recovery re-crash",
}
P["C12"] = {
    "level": "proof",
    "verus": [{"unit": "dbverify", "functions": ["Database::verify_primary_checksums", "Database::verify_checksums"]},
              {"unit": "tableverify", "functions": ["TableTree::verify_checksums", "verify_tree_and_subtree_checksums"]},
              {"unit": "repair", "functions": ["Database::do_repair", "Database::primary_verifies"]},
              {"unit": "merkle", "functions": ["RawBtree::verify_checksum", "RawBtree::verify_checksum_helper"]},
              {"unit": "integrity", "functions": ["Database::verify_and_repair_durable"]}],
    "assumptions": ["I1 (integrity unit): what the reload and the repair find are functions of the state the check starts from; rule RX: Arc::get_mut(..).unwrap() -> &mut, the do_repair call with its silent callback and error-narrowing map_err closure -> a model call, the array comparison -> an element-wise helper (verified), the array pattern -> two index reads", "tableverify unit: raw_ok(root, key width, value width) stands for RawBtree::new(root, ..).verify_checksum() == Ok(true) (what the merkle unit proves about the real walk); the catalog's entries, the pages of a tree (AllPageNumbersBtreeIter) and the subtree roots stored in a page (parse_subtree_roots) are uninterpreted; the two iterators are models with an inherent next() yielding their sequence in order (rule R18 desugars the for loops over them, rule R17 the let-chain)",
                    "merkle unit: pages, BranchAccessor::{new, count_children, child_page, child_checksum}, PageResolver::get_page, PageImpl::memory and leaf_checksum / branch_checksum are abstract: assumed contracts over uninterpreted functions of the page number (kind, recomputed checksum, child table); <[T]>::contains is given no specification",
                    "dbverify unit: TableTree::verify_checksums returns Ok(b) with b == tree_ok(root of the tree it was built from) (uninterpreted predicate; the page-level walk itself is not verified here); TransactionalMemory::get_data_root / get_system_root return the roots of the primary slot"],
    "kani": [K["C12-K1K2"], K["C12-K2b"], alias("C01-K3", "C12-K3"), K["C12-K4"]],
    "explanation": "(I) the REAL second half of check_integrity_inner (fragment, unit integrity): Ok(true) is returned only if the reload found nothing to reconcile, the repair kept both roots, the rebuilt allocator state hashes like the live one and no non-durable commit is being rolled back; anything else is reported as repaired (Ok(false)) after the repaired roots were committed; Chain: Database::verify_checksums (dbverify: both trees) -> TableTree::verify_checksums (tableverify: the REAL catalog walk reports clean exactly when the catalog tree verifies AND every table it lists verifies with the key / value widths of its definition - no table is skipped, an empty table does not end the walk) -> verify_tree_and_subtree_checksums (tableverify: a multimap table is clean exactly when its own tree verifies AND every per-key subtree in every one of its pages verifies as a tree keyed by the table's VALUE width) -> RawBtree::verify_checksum (merkle: every page reachable from the root hashes to the checksum stored for it). Kernel: the corrupted flag of a commit slot is exactly 'stored checksum != computed' for all 2^1016 slot images; a slot that failed verification is written back verbatim (never re-serialised as valid) until a new commit overwrites it; selection never returns a corrupt slot; a version byte other than 3 is never parsed; the REAL page-level walk RawBtree::verify_checksum(_helper) returns Ok(true) only if the checksum of EVERY page of the subtree was recomputed and matched the checksum its parent (or the root header) stores for it, for trees of any shape up to the depth limit (soundness of the Merkle walk, over an abstract page store); the REAL glue Database::verify_primary_checksums / verify_checksums answers Ok(true) only if BOTH the data tree and the system tree of the primary slot verified (against assumed callee contracts).",
    "not_decided": "every byte position of every image; that the catalog range iterator and AllPageNumbersBtreeIter really yield every entry / page (B-tree cursors); that leaf_checksum/branch_checksum hash every byte an accessor can return (bounded C10-P3 only); XXH3 being XXH3",
}
P["C10"] = {
    "level": "proof",
    "verus": [{"unit": "merkle", "functions": ["RawBtree::verify_checksum", "RawBtree::verify_checksum_helper"]},
              {"unit": "cow", "functions": ["MutateHelper::replace_branch_child", "MutateHelper::finalize_branch_builder", "MutateHelper::apply_subtree_result", "MutateHelper::rebuild_partial_leaf_child", "MutateHelper::merge_grandchild"]},
              {"unit": "search", "functions": ["BranchAccessor::child_for_key", "LeafAccessor::position"]},
              {"unit": "rootupd", "functions": ["MutateHelper::finish_deletion", "MutateHelper::delete_key"]},
              {"unit": "bigpair", "functions": ["MutateHelper::insert_beside_large_value"]},
              {"unit": "mmremove", "functions": ["MultimapTable::write_back_subtree"]},
              {"unit": "splice", "functions": ["MutateHelper::splice_path", "PathVec::into_iter", "PathIter::rev", "PathRev::next"]}],
    "kani": [K["C10-F1"], K["C10-F2"], K["C10-F3"], K["C10-F4"], K["C10-F6a"], alias("C11-R3", "C10-F6b"), alias("C06-K2", "C10-F6c"),
             alias("C07-K1s", "C10-F6d"), alias("C04-L1f", "C10-P1f"), alias("C04-L1v", "C10-P1v")],
    "native": [dict(NATIVE["X-leafmut4"], id="C10-X-leafmut4")],
    "explanation": "(V) checksum discipline of the mutator, verified on the REAL MutateHelper::replace_branch_child and finalize_branch_builder: a redirected child pointer always carries the DEFERRED checksum (recomputed at commit) - in place only on a page this transaction allocated, otherwise in a copy that differs from the original in exactly that pointer; a branch reduced to one child hands that child up WITH the checksum it carried, and when that child is merged into the sibling branch (fragment of apply_child_deletion_result) it is carried over with that same checksum on the correct side; an under-full branch is handed up unbuilt with children, checksums and keys untouched. (S) separator bounds on the REAL fast path of insert_helper for a leaf holding one huge pair: the two leaves are handed up in key order, the untouched one with its old checksum and the new one DEFERRED, and left <= separator < right (given branch_separator's contract, proved for the built-in key types in unit types_sep). Kernel = format conformance: every fixed-size encoder (page number, tree header, commit slot, database header, freed-page key, allocator-state key, savepoint record, page list) writes exactly the byte layout of docs/design.md (offsets are literals transcribed from the document, not the code's constants) - complete, loop-free; leaf pages: offsets tables, entries and the checksummed prefix - bounded; (M) the REAL write-back of a multimap value subtree after a removal stores the subtree's root together with the checksum the subtree reported for it (never a stale or zero one); (S) the REAL upward walk of a cursor insert (fragment of MutateHelper::splice_insert_run, experimental_cursor): a replacement node is hung under an ancestor by pointer swap only if the separator stored for the slot bounds it; a bound that was raised keeps travelling upward through slots that store no separator (last children) until a level stores one, where it is compared again; otherwise the level is rebuilt; the new root header has the deferred checksum and the old count plus the inserted pairs; replaced pages are released only after every fallible step, the replaced leaf first; (B, bounded native) the in-place leaf mutations leave exactly the bytes a rebuilt leaf would have, so the checksum of a mutated leaf is that of the rebuilt one.",
    "not_decided": "strictly increasing keys, separator bounds, equal depth, stored counts, no page referenced twice (invariants of btree_mutator.rs over histories); branch pages (probed: too expensive for CBMC); XXH3-128 being XXH3-128",
    "assumptions": ["K1 (cow unit): a branch page is the sequence of its (child page, checksum) pointers; BranchBuilder::build allocates a fresh page of this transaction holding exactly the pointers pushed (built_children, a function of the page number); get_page_mut records what is written through the handle against the page; the separator keys are not modelled", "S1 (splice unit): hi(page) is the greatest key of the subtree of a page (ghost); the pointer swap replace_branch_child carries the routing obligation as its PRECONDITION (a child is hung into a slot that stores a separator only if the separator bounds the child) and yields a page with the greatest key of its last child; rebuild_branch_level and build_branch_nodes rebuild a level from fresh pages and keep the bounds of the nodes true (assumed: BranchBuilder plumbing and iterator adapters); the path is distinct live pages satisfying the routing invariant before the splice; K::compare is some total order; Option::as_deref / mem::take as in std; the path iterator `into_iter().rev()` is a model whose next() is verified to yield the entries last first (rule R18: the for loop contains a continue)", "M3 (mmremove unit): the outer tree is the log of what was stored / removed under a key (a failing call logs nothing); a page is a function of its number while the fragment runs and a page named by a tree header starts with the LEAF or BRANCH tag; LeafAccessor reports the stored pair count and a length that does not exceed the page; the inline and subtree encodings are uninterpreted functions of what they encode (layout: Kani C09-K1/K2); conditional_free logs the page and the identity of the allocation record it was offered against (verified itself in unit alloc); the shared queue and record are held by value",
                    "docs/design.md lists '40 bytes: padding' before the transaction id of a commit slot; the fields then sum to 136 bytes, not 128. The oracle uses 32 bytes of padding (transaction id at 104, checksum at 112), the only reading consistent with the stated slot size; the document, not the code, is off by 8."],
}
P["C04"] = {
    "level": "proof",
    "verus": [{"unit": "search", "functions": ["LeafAccessor::position", "LeafAccessor::find_key", "LeafAccessor::num_pairs", "BranchAccessor::child_for_key", "BranchAccessor::num_keys",
                                               "Direction::entry_in_range_core"]},
              {"unit": "guardmut", "functions": ["AccessGuardMut::rebuild_leaf"]},
              {"unit": "rootupd", "functions": ["MutateHelper::finish_deletion", "MutateHelper::delete_key", "MutateHelper::pop_leaf_entry", "MutateHelper::delete_leaf_entries", "DeletedPairs::len", "BtreeHeader::new"]},
              {"unit": "rootins", "functions": ["MutateHelperI::insert"]},
              {"unit": "bigpair", "functions": ["MutateHelper::insert_beside_large_value"]},
              {"unit": "splice", "functions": ["MutateHelper::splice_path"]}],
    "kani": [K["C04-T1"], K["C04-L1f"], K["C04-L1v"], K["C04-L2"]],
    "native": [dict(NATIVE["X-leafmut4"], id="C04-X-leafmut4"), dict(NATIVE["X-leafmut5"], id="C04-X-leafmut5")],
    "assumptions": ["D1 (rootupd unit): the recursive descent (delete_helper) is an uninterpreted function of the root page and the key; a page built in this transaction is a function of its page number; push_all_except_deleted pushes the pairs of the leaf without the deleted ones; the helper's root / allocator references are held by value (rule RX drops the `*` of `*self.root`)", "G1 (guardmut unit): a leaf page is the sequence of pairs it holds (LeafAccessor reads it, LeafBuilder::build allocates a page holding exactly the pairs pushed), a branch page the log of child pointers written into it; the guard's root reference is held by value", "S1 (search unit): K::compare is a function of the two byte strings and a total order (reflexive, antisymmetric, transitive) - that it is the value order of each built-in key type is property C15; the n-th key / child of a page is an uninterpreted function of the page (key_unchecked, key, child_page are assumed to return it; the byte layout is checked by the bounded Kani harnesses C04-L1/L2); the keys of a page are strictly increasing (precondition `sorted`, property C10)"],
    "explanation": "Kernel = every lookup, insert and range scan reaches its entry through two binary searches, verified on their REAL loops for every page size and every total order: LeafAccessor::position reports a match only at an entry whose key equals the query and otherwise returns the insertion point (all keys before it smaller, all keys from it on larger), find_key finds a key exactly when the page holds it; BranchAccessor::child_for_key picks the child whose key interval contains the query (all separators before it smaller than the query, the separator at it greater or equal); the REAL bound test of the mutable range cursor (entry_in_range) yields an entry only while its key is on the inner side of the bound parked by the other end (Included / Excluded / Unbounded, both directions). (I) the REAL MutateHelper::insert: a new key raises the stored entry count by exactly one, an overwrite leaves it unchanged and reports the previous value; the first insert into an empty tree builds a one-pair leaf with count 1; when the root page split the new root is a fresh branch over exactly the two halves and their separator; (D) the REAL MutateHelper::delete_key / finish_deletion: removing from an empty tree or a key that is absent leaves the root - and its checksum - untouched; removing a present key stores a root whose entry count is exactly one lower, naming the page the descent produced (DEFERRED checksum) or the untouched remaining child (its retained checksum), and no root at all when the tree was emptied; pop_leaf_entry (pop_first / pop_last) and delete_leaf_entries (retain / extract) carry the change up the recorded path from the leaf's parent to the root, one level at a time in that order, and lower the count by exactly the number of entries removed; (G) the REAL page-rebuild path of AccessGuardMut::insert (get_mut / entry API, new value does not fit): the rebuilt leaf holds the old pairs with exactly this entry's value replaced, the pointer redirected to it is the parent's pointer at the position recorded for the parent (or the tree root), with a deferred checksum, and the old leaf is released. Plus the leaf page as a sorted array (bounded model checking of the real writer, reader and binary search against the sequence of pairs handed to the builder) and the complete split/merge threshold arithmetic.",
    "not_decided": "every tree operation of btree_mutator.rs: split, merge, rebalance, in-place leaf mutation beyond the bounded native check X-leafmut (LeafMutator is byte shuffling with copy_within: probed with Verus and CBMC, too expensive for both), the cursor state machines around the verified bound test, multi-transaction histories",
}
P["C06"] = {
    "level": "proof",
    "verus": [{"unit": "alloc", "functions": ["BuddyAllocator::alloc", "BuddyAllocator::alloc_inner", "BuddyAllocator::free", "BuddyAllocator::free_inner",
                                              "BuddyAllocator::record_alloc", "BuddyAllocator::record_alloc_inner", "BuddyAllocator::new", "BS::*",
                                              "InMemoryState::allocate_helper_retry", "TransactionalMemory::free_helper", "TransactionalMemory::free", "TransactionalMemory::free_if_unpersisted",
                                              "TransactionalMemory::claim_unpersisted", "PageAllocator::*", "Mutex::lock", "lemma_*"]},
              {"unit": "tabledel", "functions": ["TableTreeMut::delete_table_core"]},
              {"unit": "mmremove", "functions": ["MultimapTable::write_back_subtree"]},
              {"unit": "restore", "functions": ["WriteTransaction::purge_freed_after"]},
              {"unit": "restorequeue", "functions": ["WriteTransaction::queue_unreachable", "TableTreeMut::page_allocator", "ValueGuard::value", "Mutex::lock"]},
              {"unit": "txepilogue", "functions": ["WriteTransaction::durable_commit_point", "WriteTransaction::non_durable_commit_point", "WriteTransaction::page_allocator", "Mutex::lock"]},
              {"unit": "cow", "functions": ["MutateHelper::replace_branch_child", "MutateHelper::conditional_free", "MutateHelper::apply_subtree_result",
                                            "MutateHelper::rebuild_partial_leaf_child", "MutateHelper::finalize_branch_builder"]}],
    "kani": [K["C06-K1"], K["C06-K2"], alias("C10-F6a", "C06-K1b")],
    "native": [dict(NATIVE["X-unp3"], id="C06-X-unp3"), dict(NATIVE["X-unp4"], id="C06-X-unp4"), dict(NATIVE["X-pins3"], id="C06-X-pins3"), dict(NATIVE["X-pins4"], id="C06-X-pins4")],
    "explanation": "Kernel: no block is handed out twice (alloc returns a subset of the free set and removes exactly it - shared with C14); freed-page records are keyed (transaction, page) lexicographically so the reclaimer's range ..(free_until, 0) can never contain a record of a transaction >= free_until; the page-list record returns what was stored; the REAL free_if_unpersisted releases a page at once only when it is in the unpersisted set (allocated by a non-durable commit, so no durable root names it), removes it from that set together with the release, and otherwise changes nothing; when the mutator replaces a branch page by a copy (fragments of MutateHelper::apply_child_deletion_result: the proper-subtree case and the rebuild of an under-full leaf beside a single huge value) the original page is handed to conditional_free exactly once, and when the branch was updated in place nothing is released; the REAL MutateHelper::replace_branch_child never writes to a page this transaction did not allocate (a committed page, which a reader or a savepoint may still see, is copied instead); the REAL PageAllocator::conditional_free / free_if_uncommitted release a page at once only when this transaction allocated it since its last commit (no committed root can name it) and otherwise queue it, exactly once, for the commit without touching the allocator; free_helper (whole function) makes exactly the block's pages free in its region and touches neither the header, nor another region, nor the storage; the REAL write-back of a multimap value subtree (fragment of MultimapTable::remove) offers the leaf it folds back inline for release exactly once, against the table's own allocation record (so a page of this transaction leaves the record that a savepoint restore frees from) and only after the outer tree stopped pointing at it; a failure releases nothing; the REAL commit points (unit txepilogue): the system-tree pages a durable commit replaced are released only after the page store accepted the commit, each once, in order, outside any allocation record, and the queue is left empty; a failed commit releases nothing and keeps the per-transaction allocation record.",
    "assumptions": ["Q1 (restorequeue unit): the allocation record hands out every recorded page once (reset) and its pages are distinct, allocated and uncommitted (established by PageAllocator::allocate); the allocator handle logs releases; DATA_ALLOCATED_TABLE.range(lower..) yields the page lists of the records at or above `lower` in key order (uninterpreted function of the table and the bound; key order: complete Kani proof C15-F-txn_with_pagination); unpersisted_allocations_after(t) is an uninterpreted function of the page store and t (its meaning - exactly the allocations of later transactions - is the bounded native check X-unp); one-thread Mutex model", "E1 (txepilogue unit): the page store, the tracker and the allocator handle log what reaches them (TransactionalMemory::commit / non_durable_commit / free_if_unpersisted are verified on the real code in unit alloc); a failing page-store call changes nothing; the allocator handle is a field of the transaction model (rule RX); Vec::drain(..) hands out every element in order and leaves the queue empty (model iterator, rule R18); the parameters of the wrappers are what the dropped first halves of the two functions compute (roots, the queue of replaced system-tree pages, the set-aside unpersisted pages - distinct and unpersisted)", "M3 (mmremove unit): see C09 - conditional_free logs the page and the identity of the allocation record it was offered against; the outer tree is a log"],
    "not_decided": "the accounting equation over histories, readers and savepoints; conditional_free; the in-memory bookkeeping only BOUNDED (native, never counted as proved): UnpersistedState (allocations_after(t) returns exactly the allocations of later transactions, claim drops page and record together, data_freed_in_range / drop_data_freed_after bounds) and the TransactionTracker pin counts that define the oldest live reader",
}
P["C07"] = {
    "level": "proof",
    "kani": [K["C07-K1s"], K["C07-K1n"]],
    "verus": [{"unit": "txcommit", "functions": ["WriteTransaction::commit_inner_helper", "WriteTransaction::abort_inner", "Mutex::lock"]},
              {"unit": "allocrec", "functions": ["WriteTransaction::write_allocation_records", "Mutex::lock"]},
              {"unit": "restore", "functions": ["WriteTransaction::purge_freed_after"]},
              {"unit": "restorequeue", "functions": ["WriteTransaction::queue_unreachable", "TableTreeMut::page_allocator", "ValueGuard::value", "Mutex::lock"]},
              {"unit": "txepilogue", "functions": ["WriteTransaction::durable_commit_point", "WriteTransaction::non_durable_commit_point", "WriteTransaction::page_allocator", "Mutex::lock"]}],
    "assumptions": ["Q1 (restorequeue unit): the allocation record hands out every recorded page once (reset) and its pages are distinct, allocated and uncommitted (established by PageAllocator::allocate); the allocator handle logs releases; DATA_ALLOCATED_TABLE.range(lower..) yields the page lists of the records at or above `lower` in key order (uninterpreted function of the table and the bound; key order: complete Kani proof C15-F-txn_with_pagination); unpersisted_allocations_after(t) is an uninterpreted function of the page store and t (its meaning - exactly the allocations of later transactions - is the bounded native check X-unp); one-thread Mutex model", "E1 (txepilogue unit): the page store, the tracker and the allocator handle log what reaches them (TransactionalMemory::commit / non_durable_commit / free_if_unpersisted are verified on the real code in unit alloc); a failing page-store call changes nothing; the allocator handle is a field of the transaction model (rule RX); Vec::drain(..) hands out every element in order and leaves the queue empty (model iterator, rule R18); the parameters of the wrappers are what the dropped first halves of the two functions compute (roots, the queue of replaced system-tree pages, the set-aside unpersisted pages - distinct and unpersisted)", "P1 (restore unit): DATA_FREED_TABLE is the set of its record keys ordered by (transaction id, pagination id) (codec order: complete Kani proof C15-F-txn_with_pagination); extract_from_if(lower.., keep everything) removes exactly the keys at or above `lower`; rule RX turns the closure `|_, _| true` into a unit value", "A1 (allocrec unit): DATA_ALLOCATED_TABLE is the log of (transaction, pages) records written to it (write_allocated_pages_entry appends one; its chunking into page lists is the bounded Kani harness C06-K2), the in-memory records are a sequence yielded in key order (rule R18)", "X1 (txcommit unit): every callee of commit_inner_helper appends its step to a ghost log and leaves the transaction's configuration alone; durable_commit applies the savepoint bookkeeping itself after its commit point; both commit callees leave the freed-page lists empty on success (what the final assertions of the real function check at run time); one-thread Mutex model"],
    "native": [dict(NATIVE["X-pins3"], id="C07-X-pins3"), dict(NATIVE["X-pins4"], id="C07-X-pins4"), dict(NATIVE["X-unp3"], id="C07-X-unp3"), dict(NATIVE["X-spstate"], id="C07-X-spstate")],
    "explanation": "Kernel: (Q) step 2 of the REAL restore_savepoint_inner (fragment): a restore releases at once, each once, every page this transaction itself allocated so far and empties its allocation record (the two debug assertions of that loop are proved from the record's invariant), REPLACES the queue of pages to free at commit - what this transaction had freed is live again - by exactly the durable allocation records from (savepoint transaction + 1, 0) on, in key order, followed by the in-memory allocation records of the non-durable commits after the savepoint's transaction: nothing allocated by the savepoint's own transaction or an earlier one is queued, nothing allocated later is forgotten; (E) the REAL commit points of WriteTransaction (fragments of durable_commit and non_durable_commit): a non-durable commit hands the page store exactly the pages this transaction allocated, records the data-tree allocations under its own id (what a later savepoint restore frees), registers itself against the last durable commit - flagged when a freed-page record was stored - and only then releases the pages it set aside; a refused commit records, registers and releases nothing; a durable commit marks pending non-durable commits as persisted only after the page store accepted the commit; (V) the REAL WriteTransaction::commit_inner_helper: an acknowledged commit has applied the savepoint bookkeeping (deleted savepoints released, restored-over ones invalidated) as its LAST step, after the durable or non-durable commit it depends on; after a savepoint restore the freed-page records of the rolled-back commits are dropped FIRST; a non-durable commit keeps its freed-page records in memory under its own id and adopts nothing, a durable one writes them out; (P) step 1a of the REAL restore_savepoint_inner: exactly the freed-page records of the transactions AFTER the savepoint's transaction are purged; those of the savepoint's own transaction (pages it freed that an older reader may still see) and of earlier ones stay; (A) the REAL writing of the allocation records at a durable commit (fragment of flush_data_allocated_pages): the records earlier non-durable commits kept in memory are written out each under its OWN transaction id, in order, followed by this transaction's pages under this transaction's id - nothing else, nothing missing. (K) the persistent-savepoint record round trip (id, transaction id, user root) and its byte layout, for every id and every root header. BOUNDED (native): the savepoint bookkeeping of the real TransactionTracker - every registered savepoint holds exactly one pin on its transaction until it is deallocated, invalidation keeps the pins, oldest_savepoint_excluding / list_savepoints_after / any_*_savepoint_exists agree with the set of valid savepoints; the transaction-local SavepointTransactionState: a commit releases the pins of deleted savepoints and invalidates restored-over ones without touching their pins, an abort releases exactly the savepoints created in the transaction, both leave the local state empty.",
    "not_decided": "steps 1 and 3 of restore_savepoint_inner (root restore, invalidation of younger savepoints: BTreeSet / iterator bodies), histories, crash; malformed-record error returns; the tracker and the unpersisted allocation records beyond the stated call-sequence bound",
}
P["C09"] = {
    "level": "proof",
    "verus": [{"unit": "mmiter", "functions": ["LeafKeyIter::next_key", "LeafKeyIter::next_key_back"]},
              {"unit": "tableverify", "functions": ["verify_tree_and_subtree_checksums"]},
              {"unit": "relocate", "functions": ["TableTreeMut::relocate_tables"]},
              {"unit": "mmremove", "functions": ["MultimapTable::write_back_subtree", "BtreeHeader::new"]}],
    "kani": [K["C09-K1"], K["C09-K2"]],
    "assumptions": ["L1 (relocate unit): a table definition is (root, entry count); relocate_tree does not change the count and returns an uninterpreted function of the definition; catalog names are unique; the staged updates are a map from name to (root, count, dirty)", "M2 (mmiter unit): key_at(n) returns the n-th value of the inline collection iff n is below the number of values (its body builds a LeafAccessor over the page bytes; layout: bounded Kani harness C09-K2)", "M3 (mmremove unit): the outer tree is the log of what was stored / removed under a key (a failing call logs nothing); a page is a function of its number while the fragment runs and a page named by a tree header starts with the LEAF or BRANCH tag; LeafAccessor reports the stored pair count and a length that does not exceed the page; the inline and subtree encodings are uninterpreted functions of what they encode (layout: Kani C09-K1/K2); conditional_free logs the page and the identity of the allocation record it was offered against (verified itself in unit alloc); the shared queue and record are held by value"],
    "explanation": "Kernel: (V) the REAL double-ended cursor over the values of a key stored inline (LeafKeyIter::next_key / next_key_back): the values not yet yielded are exactly the indices between the two cursors, every call yields the smallest / largest of them and removes exactly it, and None is returned exactly when none is left - so every value is yielded once whatever mixture of next() and next_back() consumes them, for every collection size; (W) the REAL integrity walk of a multimap table (verify_tree_and_subtree_checksums): every per-key subtree of every page is verified, as a tree keyed by the table's value width; (C) the REAL catalog walk of compaction (TableTreeMut::relocate_tables): a table (multimap or not) whose tree was moved is staged with its new root and the entry count it had - staged earlier in the transaction, else recorded in the catalog - so compaction never changes len(); (W) the REAL write-back after removing a value from a key's subtree (fragment of MultimapTable::remove): when nothing is left the key leaves the table; a lone leaf smaller than half a page goes back inline with exactly the leaf's bytes; otherwise the entry is a header naming the subtree's own root with its own checksum, and as count the leaf's pair count (lone leaf) or the subtree's count (branch); (K) the per-key collection record: subtree form round trip (complete) and inline form (bounded).",
    "not_decided": "multimap operation sequences (insert / remove / remove_all), inline <-> subtree transitions other than the write-back after a removal from a subtree, how len() is maintained by insert / remove, the subtree cursor (btree_cursor.rs), relocate_subtrees",
}
P["C11"] = {
    "level": "proof",
    "native": [dict(NATIVE["X-ser"], id="C11-X-ser"), dict(NATIVE["X-trk-ser"], id="C11-X-trk-ser"), dict(NATIVE["X-resize"], id="C11-X-resize"), dict(NATIVE["X-pins3"], id="C11-X-pins3")],
    "verus": [{"unit": "alloc", "functions": ["BuddyAllocator::record_alloc", "BuddyAllocator::record_alloc_inner", "BS::*", "lemma_*", "Allocators::new", "RegionTracker::new", "BuddyAllocator::new",
                                              "Allocators::resize_to", "Allocators::lemma_*", "DatabaseLayout::recalculate", "DatabaseHeader::layout", "DatabaseHeader::set_layout",
                                              "TransactionalMemory::mark_page_allocated", "TransactionalMemory::reset_allocator_state", "TransactionalMemory::check_page_order",
                                              "InMemoryState::get_region_mut", "Mutex::lock"]},
              {"unit": "txcommit", "functions": ["WriteTransaction::abort_inner"]},
              {"unit": "beginwrite", "functions": ["begin_write_with_allocation_policy"]},
              {"unit": "openstate", "functions": ["Database::get_allocator_state_table"]},
              {"unit": "reload", "functions": ["TransactionalMemory::clear_cache_and_reload", "Mutex::lock"]},
              {"unit": "dbopen", "functions": ["Database::open_decision"]},
              {"unit": "integrity", "functions": ["Database::verify_and_repair_durable", "roots_differ"]}],
    "kani": [K["C11-R3"], K["C11-K4"], alias("C01-K4b", "C11-K4b")],
    "explanation": "Kernel: (H) the REAL TransactionalMemory::clear_cache_and_reload (the reload check_integrity() starts with): it reports clean exactly when the primary slot was kept and the stored layout matched the file or merely lagged behind a file that still has the length of the layout this process was running with - so a healthy database reloads clean whatever region counts its header still stores (an aborted transaction grows the file without writing them: the genuine defect repaired by the fix commit, see known_findings.json), while a file whose length changed under the process, or a replaced primary slot, is never reported clean; the header is rewritten and flushed exactly when something was reconciled, both caches are dropped before anything fallible, and the in-memory header, allocator state and unpersisted set are replaced; the REAL finalize reports 'primary kept' and 'stored layout matched' apart, the latter exactly when the stored region counts are the ones rebuilt from the file length (Kani C11-K4, one region geometry - bounded; K4b without recovery flag); (D) the REAL decision of Database::new (fragment): a saved allocation snapshot is loaded exactly when get_allocator_state_table found one valid for the commit being opened, and then nothing is repaired or committed; otherwise the database is repaired and the repaired roots are committed two-phase, never shrinking, under the next transaction id; the file is marked open-for-writing only after one of the two established the allocator state, and every failure stops before that mark; (I) the REAL second half of check_integrity_inner (fragment): Ok(true) exactly when the reload found nothing to reconcile, the repair kept both roots, the rebuilt allocator state hashes like the live one and no non-durable commit is rolled back - so a healthy database reports clean any number of times - and otherwise the repaired roots are committed two-phase under the next id, which is then reserved; (O) the REAL Database::get_allocator_state_table trusts a saved allocator state only when the primary commit was written with two-phase commit, the system tree of the primary holds the table, and the table is current (is_valid_allocator_state) - in every other case the open repairs; (R) rebuild = reset + one mark per reachable page. The REAL TransactionalMemory::reset_allocator_state leaves an allocator state that matches the header's layout with EVERY page free (Allocators::new, BuddyAllocator::new: greedy decomposition, lemma_greedy_all_free); the REAL TransactionalMemory::mark_page_allocated accepts a page number only if it names a block inside an existing region of the layout that was entirely free, then exactly its pages stop being free, every other region is untouched and the state stays consistent with the header; a refused page number (order > 20, region or block out of range, overlap with an allocated page) changes no allocator; the REAL WriteTransaction::abort_inner keeps the repair latch set when the rollback fails part way (its pages stay allocated, so the allocator state is never persisted as clean) and restores it after a complete rollback. record_alloc marks exactly the named block (true iff the block lay inside a free block, which it then no longer does, every other page keeps its state) or refuses with the allocator unchanged, I1 and I2 preserved; (R4) Allocators::resize_to - the reconciliation of a loaded allocator state with the layout of the file being opened - gives every region the size the layout says, keeps wf and TRK, marks dropped regions full and leaves unchanged regions untouched (BuddyAllocator::resize verified; only highest_free_order assumed); the allocator-state key codec orders Region(i) by i and before the tracker and the transaction id, which the snapshot loader's range scans rely on.",
    "assumptions": ["H1 (reload unit): the storage is the header bytes on disk, the file length and the trace of what reached it; the parser's verdicts (finalized header, primary kept, stored layout matched) are uninterpreted functions of the bytes read and the file length, the finalized layout is the one rebuilt from the file length (Kani C01-K4 / C11-K4 on the real finalize); what is written through a page handle reaches the file; one-thread Mutex model", "D1 (dbopen unit): the page store logs load / repair / commit / begin_writable; get_allocator_state_table answers Some exactly when the saved state is valid (verified in unit openstate); do_repair yields the repaired roots (verified in unit repair); the repair callback may do anything to the session it is handed; rule RX: the array pattern became two index reads; `mem` is the page store itself instead of an Arc around it", "I1 (integrity unit): what the reload and the repair find are functions of the state the check starts from; rule RX: Arc::get_mut(..).unwrap() -> &mut, the do_repair call with its silent callback and error-narrowing map_err closure -> a model call, the array comparison -> an element-wise helper (verified), the array pattern -> two index reads"],
    "not_decided": "which pages ARE reachable; is_valid_allocator_state's staleness comparison (needs a B-tree); histories and crash points; the tracker's persistent-savepoint pins rebuilt at open (register_persistent_savepoint: one pin per savepoint, also when several savepoints share a transaction) only BOUNDED (native C11-X-pins3)",
}
P["C15"] = {
    "level": "proof",
    "verus": [{"unit": "types_sep", "functions": ["bytes_separator", "str_separator", "round_up_to_char_boundary", "lemma_lex_lcp", "lemma_lcp_prefix"]}],
    "assumptions": ["T5: common_prefix_len(left, right) == length of the longest common prefix (stands for the iterator chain, rule R4; bounded Kani twin C15-B-lcp)",
                    "T6: str ordering is the byte-wise lexicographic ordering of the UTF-8 encodings",
                    "T7 (axiom_utf8_prefix): a prefix of valid UTF-8 that ends where the next byte is not 10xx_xxxx (or at the end) is valid UTF-8 (bounded Kani twin C15-B-utf8)",
                    "rule R5 drops Cow from the two separator functions (they only ever borrow) and the debug_assert!(left < right) line, whose condition is the contract's precondition"],
    "kani": [K["C15-F-" + t] for t in FIXED] + [K["C15-F-varint"], K["C15-B-bytes"], K["C15-B-optbytes"], K["C15-B-str"], K["C15-B-lcp"], K["C15-B-utf8"]],
    "explanation": "For every fixed-width built-in key type (all integer widths, bool, char, (), Option<fixed>, arrays and tuples of fixed, and the internal fixed-width keys) compare == value order and from_bytes(as_bytes(v)) == v for ALL pairs (loop-free over the full domain: complete proofs; totality/transitivity follow from the order embedding); separators of fixed-width types are `left`. Variable-width types: bounded harnesses.",
    "not_decided": "user-defined Key impls; uuid/chrono (optional features); variable-width composites beyond the stated bounds",
}
P["C17"] = {
    "level": "proof",
    "verus": [{"unit": "tablens", "functions": ["TableNamespace::*"]},
              {"unit": "tabledel", "functions": ["TableTreeMut::delete_table_core", "Mutex::lock", "drop"]}],
    "kani": [K["C17-K1"]],
    "assumptions": ["N1 (tablens unit): the catalog tree (TableTreeMut) is modelled by a ghost log of the operations that reach it, and get_or_create_table never reports TableAlreadyOpen itself; the map of open tables is modelled by the set of its keys (BTreeMap get / insert / remove / is_empty)"],
    "explanation": "Kernel: (V) the REAL open-table bookkeeping of a write transaction (TableNamespace::inner_open / inner_rename / inner_delete / close_table / close_table_without_update / set_root): a table that is already open is refused with TableAlreadyOpen without consulting or changing anything; otherwise the catalog is consulted exactly once and the name is marked open exactly when the open succeeded - a refused open (wrong type, storage error) leaves the set of open tables as it was; an open table can be neither renamed nor deleted (the catalog is not touched); closing releases exactly that name and stages the table root for the commit; (D) the REAL release of a deleted table's pages (fragment of TableTreeMut::delete_table): a failing catalog removal releases and queues nothing; otherwise every page of the table is handled exactly once - released at once iff this transaction had allocated it, else appended in walk order to the queue of pages freed at commit - none is forgotten. (K) InternalTableDefinition::check_match::<u64,&str> returns Ok iff kind, alignments, key/value type names and fixed widths all agree, and each mismatch yields the corresponding TableError variant (bounded: type names from a pool).",
    "not_decided": "what the catalog tree itself does (TableTreeMut::get_or_create_table / rename_table / delete_table / list: B-tree operations), the page walk that collects a deleted table's pages (visit_all_pages), the typed wrappers around inner_open (Table::new, set_dirty), system tables",
}
json.dump(reg, open("/verif/obligations.json", "w"), indent=1)
print("properties:", sorted(P))

#!/usr/bin/env python3
"""One-off helper: turn a hand-assembled design-probe file (real bodies + Verus text) into an overlay.

usage: probe2ovl.py <probe.rs> <out.ovl> <repo-relative source paths...>

Every exec fn / struct / const in the probe that exists in one of the given /repo files and whose
rule-rewritten real tokens embed (as a subsequence) into the probe's tokens becomes an `item` block
with the extra tokens wrapped in annotation comments; everything else becomes `verbatim`.
"""
import difflib
import json
import os
import re
import sys

sys.path.insert(0, os.path.join(os.path.dirname(os.path.abspath(__file__)), "..", "lib"))
from rtok import tokenize  # noqa
import items as itemsmod  # noqa
import rules as rulesmod  # noqa
import extract  # noqa

REPO = "/repo"

OPTS = {
    "const MAX_MAX_PAGE_ORDER": {"RX": [["( MAX_PAGE_INDEX + 1 ) . ilog2 ( ) as u8", "20"]]},
    "fn calculate_usable_order": {"R7": {"min": "min_u8"}},
    "impl BtreeBitmap :: fn new": {"RX": [["heights . reverse ( )", "vec_reverse ( & mut heights )"]]},
    "impl Allocators :: fn new": {"R7": {"max": "max_u32"}},
}
FROM_REAL = {"struct PageNumber", "struct Allocators", "struct InMemoryState"}


def depths(T):
    out, d = [], 0
    for x in T:
        if x in (")", "]", "}"):
            d -= 1
        out.append(d)
        if x in ("(", "[", "{"):
            d += 1
    return out


def embed_plain(R, P):
    """DP subsequence embedding preferring adjacency; None if impossible"""
    n, k = len(R), len(P)
    ok = [[False] * (k + 2) for _ in range(n + 1)]
    for j in range(k + 2):
        ok[n][j] = True
    for i in range(n - 1, -1, -1):
        for j in range(k - 1, -1, -1):
            ok[i][j] = ok[i][j + 1] or (R[i] == P[j] and ok[i + 1][j + 1])
    if not ok[0][0]:
        return None
    res = []
    j = 0
    for i in range(n):
        if res and res[-1] + 1 < k and P[res[-1] + 1] == R[i] and ok[i + 1][res[-1] + 2]:
            p = res[-1] + 1
        else:
            p = j
            while not (P[p] == R[i] and ok[i + 1][p + 1]):
                p += 1
        res.append(p)
        j = p + 1
    return res


def embed(R, P):
    """indices in P matching R as a subsequence.  First align (token, bracket depth) pairs, so that code
    tokens are never matched inside a deeper annotation block; then fill the gaps (return types wrapped
    as `(r: T)`) by plain embedding inside the corresponding gap of P."""
    Rd = list(zip(R, depths(R)))
    dp = depths(P)
    # `-> (r: T)`: the named-return wrapper does not count as a bracket level for T
    for x in range(len(P) - 3):
        if P[x] == "->" and P[x + 1] == "(" and P[x + 3] == ":":
            d0 = dp[x + 1]
            y = x + 2
            while not (P[y] == ")" and dp[y] == d0):
                dp[y] -= 1
                y += 1
            dp[x + 1] = -1
            dp[y] = -1
    Pd = list(zip(P, dp))
    sm = difflib.SequenceMatcher(None, Rd, Pd, autojunk=False)
    m = {}
    for a, b, n in sm.get_matching_blocks():
        for d in range(n):
            m[a + d] = b + d
    # fill gaps
    i = 0
    n = len(R)
    while i < n:
        if i in m:
            i += 1
            continue
        j = i
        while j < n and j not in m:
            j += 1
        lo = m[i - 1] + 1 if i > 0 else 0
        hi = m[j] if j < n else len(P)
        sub = embed_plain(R[i:j], P[lo:hi])
        if sub is None:
            return embed_plain(R, P)
        for d, x in enumerate(sub):
            m[i + d] = lo + x
        i = j
    res = [m[i] for i in range(n)]
    assert all(res[i] < res[i + 1] for i in range(n - 1))
    return res


def slide_gaps(P, matched):
    """diff-style normalisation: slide each unmatched run left/right (over equal tokens) to a position where the
    annotation text lints clean (balanced, no executable remainder)"""
    n = len(P)
    flag = [i in matched for i in range(n)]
    i = 0
    while i < n:
        if flag[i] or P[i] == "pub":
            i += 1
            continue
        a = i
        b = i
        while b < n and not flag[b]:
            b += 1
        def clean(x, y):
            txt = " ".join(P[x:y])
            return extract.lint_annotation(txt) is None
        if not clean(a, b):
            best = None
            # slide right by s
            s_ = 1
            while b + s_ <= n and all(flag[b + k] for k in range(s_)) and P[a:a + s_] == P[b:b + s_]:
                if clean(a + s_, b + s_):
                    best = s_
                    break
                s_ += 1
            if best is None:
                s_ = 1
                while a - s_ >= 0 and all(flag[a - k - 1] for k in range(s_)) and P[a - s_:a] == P[b - s_:b]:
                    if clean(a - s_, b - s_):
                        best = -s_
                        break
                    s_ += 1
            if best is None and b < n:
                # re-match the code token after the gap to an equal token inside the gap, splitting the run in two
                for m in range(a, b):
                    if P[m] == P[b] and clean(a, m) and clean(m + 1, b + 1):
                        flag[m] = True
                        flag[b] = False
                        break
            if best is not None:
                for k in range(a, b):
                    flag[k] = True
                lo, hi = a + best, b + best
                for k in range(min(a, lo), max(b, hi)):
                    flag[k] = True
                for k in range(lo, hi):
                    flag[k] = False
                b = max(b, hi)
        i = b
    return set(i for i in range(n) if flag[i])


def annotate(ptext, ptoks, matched):
    """ptext: probe item text; ptoks: its tokens (no comments); matched: set of token indices that are code"""
    out = []
    pos = 0
    i = 0
    n = len(ptoks)
    while i < n:
        t = ptoks[i]
        if i in matched or t.text == "pub":
            # code token (visibility stays as code; skeleton() strips it)
            if t.text == "pub" and i not in matched and i + 1 < n and ptoks[i + 1].text == "(" and (i + 1) not in matched:
                # pub(crate)
                depth = 0
                j = i + 1
                while True:
                    if ptoks[j].text == "(":
                        depth += 1
                    elif ptoks[j].text == ")":
                        depth -= 1
                        if depth == 0:
                            break
                    j += 1
                i = j + 1
                continue
            i += 1
            continue
        # start of an annotation run
        j = i
        while j + 1 < n and (j + 1) not in matched and ptoks[j + 1].text != "pub":
            j += 1
        a, b = ptoks[i].start, ptoks[j].end
        out.append(ptext[pos:a])
        body = ptext[a:b]
        assert "@*/" not in body
        bt = [x.text for x in ptoks[i:j + 1]]
        bal = sum(1 for x in bt if x in "([{" and len(x) == 1) - sum(1 for x in bt if x in ")]}" and len(x) == 1)
        if bal != 0 and not (bt[0] == "(" and bt[-1] == ":") and bt != [")"]:
            print("  unbalanced annotation run:", " ".join(bt)[:100])
        out.append("/*@ " + body + " @*/")
        pos = b
        i = j + 1
    out.append(ptext[pos:])
    return "".join(out)


def main():
    probe, outp = sys.argv[1], sys.argv[2]
    paths = sys.argv[3:]
    index = {}
    for p in paths:
        src, toks, its = itemsmod.load(os.path.join(REPO, p))
        for k, v in itemsmod.index_items(its).items():
            if v[0].kind in ("use", "mod", "impl", "other", "macro", "trait", "type"):
                continue
            if k not in index:
                index[k] = (p, v[0])
    lines = open(probe).read().split("\n")
    # strip the `verus! {` wrapper lines; the unit driver adds its own
    out = []
    used = set()
    failed = []
    owner = ""
    i = 0
    buf = []       # verbatim lines being collected

    def flush():
        nonlocal buf
        text = "\n".join(buf).strip("\n")
        if tokenize(text):
            if owner:
                out.append("//@@ verbatim")
                out.append(owner + " {")
                out.append(text)
                out.append("}")
            else:
                out.append("//@@ verbatim")
                out.append(text)
        buf = []

    def take_item(start, indent):
        """lines[start] is the `fn` / `struct` line; include preceding attribute lines; return (first, last)"""
        first = start
        while first - 1 >= 0 and lines[first - 1].strip().startswith("#[") and lines[first - 1].startswith(indent + "#"):
            first -= 1
        # single-line item?
        l = lines[start]
        if l.rstrip().endswith("}") or l.rstrip().endswith(";"):
            t = tokenize(l)
            depth = 0
            for x in t:
                if x.text in "([{":
                    depth += 1
                elif x.text in ")]}":
                    depth -= 1
            if depth == 0:
                return first, start
        last = start
        while not (lines[last] == indent + "}" or lines[last].startswith(indent + "} ")):
            last += 1
        return first, last

    n = len(lines)
    while i < n:
        line = lines[i]
        if line.strip() in ("use vstd::prelude::*;", "verus! {") and i < 3:
            i += 1
            continue
        m = re.match(r"^impl(<[^>]*>)?\s+(.*?)\s*\{\s*$", line)
        if m and not owner:
            flush()
            owner = "impl " + m.group(2)
            i += 1
            continue
        if owner and line == "}":
            flush()
            owner = ""
            i += 1
            continue
        indent = "    " if owner else ""
        m = re.match(r"^" + indent + r"(pub(\([a-z]+\))? )?(const )?(fn|struct|const) ([A-Za-z_0-9]+)", line)
        if m:
            kind, name = m.group(4), m.group(5)
            if m.group(3) and kind == "fn":
                pass
            key = ("%s :: %s %s" % (owner, kind, name)) if owner else ("%s %s" % (kind, name))
            if key in index:
                first, last = take_item(i, indent)
                # attribute lines in front
                pre = i - first
                if pre:
                    # they were already appended to buf; remove
                    buf = buf[:len(buf) - pre]
                ptext = "\n".join(lines[i:last + 1])
                ptoks = tokenize(ptext)
                path, it = index[key]
                opts = OPTS.get(key, {})
                R, fired = rulesmod.apply_rules([t.text for t in it.tokens()], extract.extra_rules(opts))
                P = [t.text for t in ptoks]
                emb = embed(R, P)
                if emb is None and key in FROM_REAL:
                    flush()
                    out.append("//@@ item %s | %s" % (path, key))
                    for a in lines[first:i]:
                        out.append("//@ " + a.strip())
                    out.append(extract.pretty(extract.add_pub(R, it.kind)))
                    used.add(key)
                    i = last + 1
                    continue
                if emb is None:
                    failed.append(key)
                    buf.extend(lines[first:last + 1])
                    i = last + 1
                    continue
                flush()
                ann = annotate(ptext, ptoks, slide_gaps(P, set(emb)))
                nth = 0
                out.append("//@@ item %s | %s%s" % (path, key, (" | " + json.dumps(opts)) if opts else ""))
                for a in lines[first:i]:
                    out.append("//@ " + a.strip())
                out.append(ann)
                # sanity: skeleton equals R
                assert extract.skeleton(ann) == R, key
                used.add(key)
                i = last + 1
                continue
        buf.append(line)
        i += 1
    flush()
    # drop the trailing `fn main() {}` and the verus! closer if present in verbatim tail
    text = "\n".join(out) + "\n"
    open(outp, "w").write(text)
    print("items:", len(used), "failed:", failed)


if __name__ == "__main__":
    main()

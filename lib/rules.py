"""Fixed rewrite rules applied to the token text of real redb items before Verus sees them.

Every rule is a pure function  list[str] -> (list[str], fired:int).  The rule table, and how often
each rule fired per item, is printed into the evidence so a reader can check the rewrites against
the source.  Rules never look at annotations: they run on /repo's text only.
"""

OPEN = {"(": ")", "[": "]", "{": "}"}
CLOSERS = {")": "(", "]": "[", "}": "{"}


def _match_close(t, i):
    depth = 0
    j = i
    while j < len(t):
        if t[j] in OPEN:
            depth += 1
        elif t[j] in CLOSERS:
            depth -= 1
            if depth == 0:
                return j
        j += 1
    raise ValueError("unbalanced")


def _match_open(t, i):
    depth = 0
    j = i
    while j >= 0:
        if t[j] in CLOSERS:
            depth += 1
        elif t[j] in OPEN:
            depth -= 1
            if depth == 0:
                return j
        j -= 1
    raise ValueError("unbalanced")


def _split_args(t):
    """split a token list at top-level commas"""
    out, cur, depth = [], [], 0
    for x in t:
        if x in OPEN:
            depth += 1
        elif x in CLOSERS:
            depth -= 1
        if x == "," and depth == 0:
            out.append(cur)
            cur = []
        else:
            cur.append(x)
    if cur:
        out.append(cur)
    return out


def _is_ident(x):
    return (x[0].isalpha() or x[0] == "_") and all(c.isalnum() or c == "_" for c in x)


def _receiver_start(t, dot):
    """t[dot] == '.'; return the index where the postfix-expression receiver begins."""
    j = dot - 1
    while True:
        if t[j] in (")", "]"):
            j = _match_open(t, j)
            # a call/index: the callee precedes
            if j - 1 >= 0 and (_is_ident(t[j - 1]) or t[j - 1] in (")", "]")):
                j -= 1
                continue
            return j
        # identifier / literal
        if j - 1 >= 0 and t[j - 1] in (".", "::"):
            j -= 2
            continue
        return j


def r_visibility(t):
    """R1: drop `pub`, `pub(crate)`, `pub(super)`, `pub(in ..)`; the emitter re-adds a plain `pub`."""
    out, i, n = [], 0, 0
    while i < len(t):
        if t[i] == "pub":
            n += 1
            if i + 1 < len(t) and t[i + 1] == "(":
                i = _match_close(t, i + 1) + 1
            else:
                i += 1
            continue
        out.append(t[i])
        i += 1
    return out, n


def r_assert_eq(t):
    """R2: assert_eq!(a, b, ..) -> assert!((a) == (b)); assert_ne -> !=; debug_ variants likewise."""
    out, i, n = [], 0, 0
    names = {"assert_eq": ("assert", "=="), "assert_ne": ("assert", "!="),
             "debug_assert_eq": ("debug_assert", "=="), "debug_assert_ne": ("debug_assert", "!=")}
    while i < len(t):
        if t[i] in names and i + 2 < len(t) and t[i + 1] == "!" and t[i + 2] == "(":
            close = _match_close(t, i + 2)
            args = _split_args(t[i + 3:close])
            mac, op = names[t[i]]
            out += [mac, "!", "(", "("] + r_assert_eq(args[0])[0] + [")", op, "("] + r_assert_eq(args[1])[0] + [")", ")"]
            n += 1
            i = close + 1
            continue
        out.append(t[i])
        i += 1
    return out, n


def r_assert_msg(t):
    """R2c: assert!(c, "fmt", args..) / debug_assert!(c, ..) -> assert!(c): the message is dropped
    (Verus accepts only some format strings; the condition is kept and becomes an obligation)."""
    out, i, n = [], 0, 0
    while i < len(t):
        if t[i] in ("assert", "debug_assert") and i + 2 < len(t) and t[i + 1] == "!" and t[i + 2] == "(":
            close = _match_close(t, i + 2)
            args = _split_args(t[i + 3:close])
            if len(args) > 1:
                n += 1
            inner, k = r_assert_msg(args[0])
            n += k
            out += [t[i], "!", "("] + inner + [")"]
            i = close + 1
            continue
        out.append(t[i])
        i += 1
    return out, n


def r_pow2(t):
    """R3a: 2u32.pow(X.into()) -> pow2_u32(X); 2u64.pow(X.into()) -> pow2_u64(X)"""
    out, i, n = [], 0, 0
    while i < len(t):
        if t[i] in ("2u32", "2u64") and t[i + 1:i + 4] == [".", "pow", "("]:
            close = _match_close(t, i + 3)
            inner = t[i + 4:close]
            if inner[-4:] == [".", "into", "(", ")"]:
                inner = inner[:-4]
            out += ["pow2_" + t[i][1:], "("] + inner + [")"]
            n += 1
            i = close + 1
            continue
        out.append(t[i])
        i += 1
    return out, n


def r_div_ceil(t):
    """R3b: E.div_ceil(A) -> div_ceil_u32(E, A)"""
    n = 0
    while True:
        for i in range(len(t) - 2):
            if t[i] == "." and t[i + 1] == "div_ceil" and t[i + 2] == "(":
                close = _match_close(t, i + 2)
                rs = _receiver_start(t, i)
                t = t[:rs] + ["div_ceil_u32", "("] + t[rs:i] + [","] + t[i + 3:close] + [")"] + t[close + 1:]
                n += 1
                break
        else:
            return t, n


SIZES = {"u8": "1", "i8": "1", "u16": "2", "i16": "2", "u32": "4", "i32": "4", "u64": "8", "i64": "8",
         "u128": "16", "i128": "16"}


def r_size_of(t):
    """R8: size_of::<uN>() -> literal"""
    out, i, n = [], 0, 0
    while i < len(t):
        if t[i] == "size_of" and t[i + 1:i + 3] == ["::", "<"] and t[i + 3] in SIZES and t[i + 4:i + 7] == [">", "(", ")"]:
            out.append(SIZES[t[i + 3]])
            n += 1
            i += 7
            continue
        out.append(t[i])
        i += 1
    return out, n


CFG_DROPPABLE = {"( test )", "( debug_assertions )", "( all ( debug_assertions , not ( fuzzing ) ) )", "( all ( debug_assertions , not ( redb_no_std ) ) )",
                 '( feature = "logging" )', '( feature = "cache_metrics" )', "( fuzzing )"}


class UnsupportedCfg(Exception):
    pass


def r_drop_cfg_stmts(t):
    """R9: inside a function body, drop `#[cfg(..)] <stmt or block>` (test-only and debug-consistency
    statements).  Also drops `#[allow(..)]`-style attributes on statements (attribute only)."""
    out, i, n = [], 0, 0
    while i < len(t):
        if t[i] == "#" and i + 1 < len(t) and t[i + 1] == "[":
            close = _match_close(t, i + 1)
            name = t[i + 2]
            if name == "cfg":
                # Only code that is absent from a release build of the library, or that only logs / counts, may be dropped.  Any other
                # predicate (`not(debug_assertions)`, `not(test)`, a target, another feature ..) guards code that RUNS: dropping it
                # would verify a text that is not the code - the unit is refused instead (UNDECIDED).
                pred = " ".join(t[i + 3:close])
                if pred not in CFG_DROPPABLE:
                    raise UnsupportedCfg("a statement is guarded by #[cfg%s], which the extraction may not drop" % pred.replace(" ", ""))
                # drop the attribute and the statement/block that follows
                j = close + 1
                if t[j] == "{":
                    j = _match_close(t, j) + 1
                else:
                    depth = 0
                    # `#[cfg(..)] field: expr,` inside a struct literal: the dropped text ends at the comma (or at the closing brace)
                    field_mode = j + 1 < len(t) and t[j + 1] == ":" and t[j] not in ("let",)
                    while True:
                        if field_mode and t[j] == ",":
                            j += 1
                            break
                        if field_mode and t[j] in ("}", ")", "]"):
                            break
                        if t[j] in OPEN:
                            j = _match_close(t, j) + 1
                            if t[j - 1] == "}" and (j >= len(t) or t[j] not in (".", "?", ";")):
                                break
                            continue
                        if t[j] == ";":
                            j += 1
                            break
                        j += 1
                n += 1
                i = j
                continue
            # any other attribute inside a body: drop the attribute only
            n += 0
            i = close + 1
            continue
        out.append(t[i])
        i += 1
    return out, n


def r_drain_truncate(t):
    """R6: `X.drain(n..);` as a statement -> `X.truncate(n);`"""
    out, i, n = [], 0, 0
    while i < len(t):
        if t[i] == "." and t[i + 1] == "drain" and t[i + 2] == "(":
            close = _match_close(t, i + 2)
            inner = t[i + 3:close]
            if inner and inner[-1] == ".." and close + 1 < len(t) and t[close + 1] == ";":
                out += [".", "truncate", "("] + inner[:-1] + [")"]
                n += 1
                i = close + 1
                continue
        out.append(t[i])
        i += 1
    return out, n


def r_minmax(t, mapping):
    """R7: core::cmp::min / core::cmp::max / bare min / max  ->  monomorphic helper named in the
    per-item mapping, e.g. {'min': 'min_u8'}.  Method-call `.min(x)` -> helper(recv, x) likewise."""
    n = 0
    # path form
    out, i = [], 0
    while i < len(t):
        if t[i:i + 4] == ["core", "::", "cmp", "::"] and t[i + 4] in mapping and t[i + 5] == "(":
            out.append(mapping[t[i + 4]])
            n += 1
            i += 5
            continue
        if t[i] in mapping and t[i + 1] == "(" and (i == 0 or t[i - 1] not in (".", "::", "fn")):
            out.append(mapping[t[i]])
            n += 1
            i += 1
            continue
        out.append(t[i])
        i += 1
    t = out
    while True:
        for i in range(len(t) - 2):
            if t[i] == "." and t[i + 1] in mapping and t[i + 2] == "(":
                close = _match_close(t, i + 2)
                rs = _receiver_start(t, i)
                t = t[:rs] + [mapping[t[i + 1]], "("] + t[rs:i] + [","] + t[i + 3:close] + [")"] + t[close + 1:]
                n += 1
                break
        else:
            return t, n


def r_cow_borrowed(t):
    """R5: Cow::Borrowed(E) -> E  (only for functions that never build an owned value; the return type is
    rewritten by a per-item RX rule)"""
    out, i, n = [], 0, 0
    while i < len(t):
        if t[i:i + 4] == ["Cow", "::", "Borrowed", "("]:
            close = _match_close(t, i + 3)
            inner, k = r_cow_borrowed(t[i + 4:close])
            out += inner
            n += 1 + k
            i = close + 1
            continue
        out.append(t[i])
        i += 1
    return out, n


def r_iter_mut(t):
    """R14: loops over `&mut Vec` that Verus cannot reason about are turned into index loops, element by element in the same
    order:  `for X in &mut E { B }`           -> `let mut verif_i: usize = 0; while verif_i < E.len() { let X = &mut E[verif_i]; B verif_i += 1; }`
            `for X in E.iter_mut().rev() { B }` -> `let mut verif_i: usize = E.len(); while verif_i > 0 { verif_i -= 1; let X = &mut E[verif_i]; B }`
    Applied only when B contains no `continue` / `break` and E contains no braces."""
    n = 0
    i = 0
    out = []
    while i < len(t):
        if t[i] == "for" and i + 2 < len(t) and t[i + 2] == "in":
            x = t[i + 1]
            j = i + 3
            k = j
            while k < len(t) and t[k] != "{":
                k += 1
            head = t[j:k]
            close = _match_close(t, k)
            body = t[k + 1:close]
            if "continue" in body or "break" in body:
                out.append(t[i]); i += 1; continue
            if head[:2] == ["&", "mut"] and "{" not in head:
                e = head[2:]
                out += ["let", "mut", "verif_i", ":", "usize", "=", "0", ";", "while", "verif_i", "<"] + e + [".", "len", "(", ")", "{",
                        "let", x, "=", "&", "mut"] + e + ["[", "verif_i", "]", ";"] + r_iter_mut(body)[0] + ["verif_i", "+=", "1", ";", "}"]
                n += 1
                i = close + 1
                continue
            if head[-8:] == [".", "iter_mut", "(", ")", ".", "rev", "(", ")"]:
                e = head[:-8]
                out += ["let", "mut", "verif_i", ":", "usize", "="] + e + [".", "len", "(", ")", ";", "while", "verif_i", ">", "0", "{",
                        "verif_i", "-=", "1", ";", "let", x, "=", "&", "mut"] + e + ["[", "verif_i", "]", ";"] + r_iter_mut(body)[0] + ["}"]
                n += 1
                i = close + 1
                continue
        out.append(t[i])
        i += 1
    return out, n


def r_let_chain(t):
    """R17: `if let PAT = E && C { B }` with NO else branch -> `if let PAT = E { if C { B } }` (Verus has no let-chains).
    The two forms are equivalent when there is no else: B runs exactly when the pattern matches and C holds, and C is evaluated
    only after the pattern matched, with its bindings in scope."""
    out, i, n = [], 0, 0
    while i < len(t):
        if t[i] == "if" and i + 1 < len(t) and t[i + 1] == "let":
            # find the `&&` at depth 0 before the body's opening brace
            depth = 0
            j = i + 2
            amp = None
            brace = None
            while j < len(t):
                if t[j] in ("(", "["):
                    depth += 1
                elif t[j] in (")", "]"):
                    depth -= 1
                elif t[j] == "{" and depth == 0:
                    brace = j
                    break
                elif t[j] == "&&" and depth == 0 and amp is None:
                    amp = j
                j += 1
            if amp is not None and brace is not None:
                close = _match_close(t, brace)
                if not (close + 1 < len(t) and t[close + 1] == "else"):
                    inner, k = r_let_chain(t[brace:close + 1])
                    out += t[i:amp] + ["{", "if"] + t[amp + 1:brace] + inner + ["}"]
                    n += 1 + k
                    i = close + 1
                    continue
        out.append(t[i])
        i += 1
    return out, n


def r_for_next(t, which):
    """R18: the for loops of the item listed in `which` (0-based, in source order) are desugared the way rustc does it, minus the
    IntoIterator::into_iter call (the iterated expressions are already iterators - models with an inherent `next`):
        `for PAT in E { B }` -> `{ let mut verif_iterN = E; loop { match verif_iterN.next() { Some(PAT) => { B } None => break, } } }`"""
    out, i, n, seen = [], 0, 0, -1
    while i < len(t):
        if t[i] == "for" and "in" in t[i + 1:i + 12]:
            seen += 1
            if seen in which:
                # pattern up to the `in` at depth 0
                depth = 0
                j = i + 1
                while not (t[j] == "in" and depth == 0):
                    if t[j] in ("(", "[", "{"):
                        depth += 1
                    elif t[j] in (")", "]", "}"):
                        depth -= 1
                    j += 1
                pat = t[i + 1:j]
                k = j + 1
                depth = 0
                while not (t[k] == "{" and depth == 0):
                    if t[k] in ("(", "["):
                        depth += 1
                    elif t[k] in (")", "]"):
                        depth -= 1
                    k += 1
                expr = t[j + 1:k]
                close = _match_close(t, k)
                # nested loops are numbered by their own position: recurse on the body with the indices shifted
                body, kk = r_for_next(t[k:close + 1], [w - seen - 1 for w in which if w > seen])
                inner_fors = sum(1 for a in range(k, close) if t[a] == "for" and "in" in t[a + 1:a + 12])
                name = "verif_iter%d" % seen
                out += ["{", "let", "mut", name, "="] + expr + [";", "loop", "{", "match", name, ".", "next", "(", ")", "{",
                        "Some", "("] + pat + [")", "=>"] + body + ["None", "=>", "break", ",", "}", "}", "}"]
                n += 1 + kk
                seen += inner_fors
                i = close + 1
                continue
        out.append(t[i])
        i += 1
    return out, n


def r_replace(t, frm, to):
    """generic literal token-sequence replacement (per-item, listed in the overlay directive)"""
    out, i, n = [], 0, 0
    k = len(frm)
    while i < len(t):
        if t[i:i + k] == frm:
            out += to
            n += 1
            i += k
            continue
        out.append(t[i])
        i += 1
    return out, n


DEFAULT = [("R1", r_visibility), ("R2", r_assert_eq), ("R3a", r_pow2), ("R3b", r_div_ceil),
           ("R8", r_size_of), ("R9", r_drop_cfg_stmts), ("R6", r_drain_truncate)]

DOC = {
    "R1": "visibility (pub / pub(crate) / pub(super)) dropped, plain `pub` emitted",
    "R2": "assert_eq!/assert_ne!/debug_ variants -> assert!((a) == (b)) (kept as an obligation)",
    "R2c": "assert!/debug_assert! message arguments dropped (condition kept as an obligation)",
    "R3a": "2u32.pow(x.into()) -> pow2_u32(x), 2u64.pow(x.into()) -> pow2_u64(x) (external_body helpers, assumed spec 2^x)",
    "R3b": "x.div_ceil(n) -> div_ceil_u32(x, n) (external_body helper, assumed spec ceil(x/n))",
    "R5": "Cow::Borrowed(e) -> e, return type Cow<'a,[u8]> -> &'a [u8] (only on functions that only ever borrow)",
    "R14": "`for x in &mut v { .. }` / `for x in v.iter_mut().rev() { .. }` -> index loop over the same elements in the same order (per item)",
    "R6": "`v.drain(n..);` statement -> `v.truncate(n);`",
    "R7": "core::cmp::min/max and .min()/.max() -> monomorphic verified helpers (per item)",
    "R8": "size_of::<uN>() -> integer literal",
    "R9": "`#[cfg(..)]` statements/blocks inside bodies dropped (test-only / debug consistency checks); other statement attributes dropped",
    "R17": "`if let P = E && C { B }` without else -> `if let P = E { if C { B } }` (per item)",
    "R18": "listed `for P in E { B }` loops -> `{ let mut it = E; loop { match it.next() { Some(P) => { B } None => break, } } }` (per item; rustc's desugaring minus into_iter)",
    "RX": "per-item literal token replacement listed in the overlay directive",
    "RXO": "as RX, but an item that no longer contains the pattern is not a lost anchor: it is verified as it is",
}


def apply_rules(t, extra=None):
    fired = {}
    for name, fn in DEFAULT:
        t, n = fn(t)
        if n:
            fired[name] = fired.get(name, 0) + n
    for spec in (extra or []):
        kind = spec[0]
        if kind == "R7":
            t, n = r_minmax(t, spec[1])
            fired["R7"] = fired.get("R7", 0) + n
        elif kind == "R14":
            t, n = r_iter_mut(t)
            fired["R14"] = fired.get("R14", 0) + n
        elif kind == "R17":
            t, n = r_let_chain(t)
            fired["R17"] = fired.get("R17", 0) + n
        elif kind == "R18":
            t, n = r_for_next(t, spec[1])
            fired["R18"] = fired.get("R18", 0) + n
        elif kind == "R5":
            t, n = r_cow_borrowed(t)
            fired["R5"] = fired.get("R5", 0) + n
        elif kind == "RX":
            t, n = r_replace(t, spec[1], spec[2])
            fired["RX"] = fired.get("RX", 0) + n
            if n == 0:
                fired.setdefault("RX-miss", 0)
                fired["RX-miss"] += 1
        elif kind == "RXO":
            # optional replacement: rewrites every occurrence; an item that no longer contains the pattern is verified as it is
            # (a deleted call must fail the contract, not lose the anchor)
            t, n = r_replace(t, spec[1], spec[2])
            fired["RXO"] = fired.get("RXO", 0) + n
    return t, fired

"""Per-run scratch copy of the redb crate with the harness modules appended (never edits /repo)."""
import os
import re
import shutil
import subprocess

VERIF = os.path.dirname(os.path.dirname(os.path.abspath(__file__)))


def make_scratch_crate(repo, dest, inject, extra_lib=""):
    """inject: {repo-relative source path: [absolute harness file, ...]}.
    Copies src, Cargo.toml, Cargo.lock, build.rs and the redb-derive crates, reduces the workspace member
    list to what was copied, and *appends* to each listed source file
        #[cfg(any(kani, verif_replay))] mod verif_kani_<n> { include!("<harness file>"); }
    Nothing is removed and no existing line is changed."""
    os.makedirs(dest, exist_ok=True)
    for name in ("src", "crates/redb-derive", "crates/redb-derive-rename-test"):
        s = os.path.join(repo, name)
        d = os.path.join(dest, name)
        if os.path.isdir(s):
            shutil.copytree(s, d, dirs_exist_ok=True, ignore=shutil.ignore_patterns("target"))
    for name in ("Cargo.toml", "Cargo.lock", "build.rs", "rust-toolchain"):
        s = os.path.join(repo, name)
        if os.path.exists(s):
            shutil.copy(s, os.path.join(dest, name))
    ct = open(os.path.join(dest, "Cargo.toml")).read()
    ct = re.sub(r"members = \[[^\]]*\]", 'members = [".", "crates/redb-derive", "crates/redb-derive-rename-test"]', ct, count=1)
    ct = re.sub(r"default-members = \[[^\]]*\]", 'default-members = ["."]', ct, count=1)
    if "[lints.rust]" not in ct:
        ct += '\n[lints.rust]\nunexpected_cfgs = { level = "allow", check-cfg = ["cfg(kani)", "cfg(verif_replay)"] }\n'
    open(os.path.join(dest, "Cargo.toml"), "w").write(ct)
    os.makedirs(os.path.join(dest, ".cargo"), exist_ok=True)
    open(os.path.join(dest, ".cargo", "config.toml"), "w").write("[net]\noffline = true\n")
    n = 0
    for rel, files in inject.items():
        p = os.path.join(dest, rel)
        if not os.path.exists(p):
            raise FileNotFoundError(rel)
        with open(p, "a") as f:
            for h in files:
                n += 1
                f.write('\n#[cfg(any(kani, verif_replay))]\n#[allow(unused, clippy::all)]\nmod verif_kani_%d { include!("%s"); }\n' % (n, h))
    # the facade lives at crate root
    with open(os.path.join(dest, "src", "lib.rs"), "a") as f:
        f.write('\n#[cfg(any(kani, verif_replay))]\n#[allow(unused, clippy::all)]\npub(crate) mod vk { include!("%s"); }\n' % os.path.join(VERIF, "kani", "vk.rs"))
        if extra_lib:
            f.write(extra_lib)
    return dest

"""Locate items (struct / enum / const / fn / impl { fn }) in a Rust token stream."""
from rtok import tokenize, match_close, Tok

QUALS = {"pub", "const", "unsafe", "async", "extern", "default"}
ITEM_KW = {"fn", "struct", "enum", "union", "impl", "trait", "mod", "use", "type", "static", "const",
           "macro_rules"}


class Item:
    def __init__(self, kind, name, owner, toks, lo, hi, attrs):
        self.kind = kind        # 'fn', 'struct', 'enum', 'const', 'impl', 'mod', ...
        self.name = name
        self.owner = owner      # normalised impl header ("impl Foo", "impl Key for &[u8]") or ""
        self.toks = toks        # the token list of the whole file
        self.lo = lo            # index of first token (after attributes)
        self.hi = hi            # index one past the last token
        self.attrs = attrs      # list of attribute token-slices (lo, hi)
        self.children = []

    def tokens(self):
        return self.toks[self.lo:self.hi]

    def key(self):
        if self.owner:
            return "%s :: %s %s" % (self.owner, self.kind, self.name)
        return "%s %s" % (self.kind, self.name)

    def attr_texts(self):
        return [" ".join(t.text for t in self.toks[a:b]) for a, b in self.attrs]

    def __repr__(self):
        return "Item(%s)" % self.key()


def _skip_generics(toks, i):
    """toks[i] is '<'; return index after the matching '>' (handles '>>' tokens, '->' ignored)."""
    depth = 0
    while i < len(toks):
        t = toks[i].text
        if toks[i].kind == "p":
            if t == "<":
                depth += 1
            elif t == ">":
                depth -= 1
            elif t == ">>":
                depth -= 2
            elif t in ("(", "[", "{"):
                i = match_close(toks, i)
            if depth <= 0 and t in (">", ">>"):
                return i + 1
        i += 1
    return i


def _find_body_or_semi(toks, i):
    """From i scan to the first '{' or ';' at bracket depth 0 (generics aware enough: parens/brackets
    are skipped as units).  Returns (index, is_brace)."""
    while i < len(toks):
        t = toks[i]
        if t.kind == "p":
            if t.text in ("(", "["):
                i = match_close(toks, i) + 1
                continue
            if t.text == "{":
                return i, True
            if t.text == ";":
                return i, False
        i += 1
    raise ValueError("no body found")


def parse_items(toks, lo=0, hi=None, owner=""):
    if hi is None:
        hi = len(toks)
    items = []
    i = lo
    while i < hi:
        attrs = []
        # attributes
        while i < hi and toks[i].text == "#":
            j = i + 1
            if j < hi and toks[j].text == "!":
                j += 1
            if j < hi and toks[j].text == "[":
                k = match_close(toks, j)
                attrs.append((i, k + 1))
                i = k + 1
            else:
                break
        if i >= hi:
            break
        start = i
        # qualifiers
        while i < hi and toks[i].kind == "i" and toks[i].text in QUALS and not (
                toks[i].text == "const" and i + 1 < hi and toks[i + 1].kind == "i" and toks[i + 1].text not in ITEM_KW and toks[i + 1].text not in QUALS):
            if toks[i].text == "pub" and i + 1 < hi and toks[i + 1].text == "(":
                i = match_close(toks, i + 1) + 1
            elif toks[i].text == "extern" and i + 1 < hi and toks[i + 1].kind == "s":
                i += 2
            else:
                i += 1
        if i >= hi:
            break
        kw = toks[i].text
        if kw == "fn":
            name = toks[i + 1].text
            b, is_brace = _find_body_or_semi(toks, i + 2)
            end = match_close(toks, b) + 1 if is_brace else b + 1
            items.append(Item("fn", name, owner, toks, start, end, attrs))
            i = end
        elif kw in ("struct", "enum", "union"):
            name = toks[i + 1].text
            b, is_brace = _find_body_or_semi(toks, i + 2)
            if is_brace:
                end = match_close(toks, b) + 1
            else:
                end = b + 1
            items.append(Item(kw, name, owner, toks, start, end, attrs))
            i = end
        elif kw == "const" or kw == "static":
            j = i + 1
            if toks[j].text == "mut":
                j += 1
            name = toks[j].text
            # scan to ';' at depth 0
            k = j
            while True:
                t = toks[k]
                if t.kind == "p" and t.text in ("(", "[", "{"):
                    k = match_close(toks, k) + 1
                    continue
                if t.kind == "p" and t.text == ";":
                    break
                k += 1
            items.append(Item("const", name, owner, toks, start, k + 1, attrs))
            i = k + 1
        elif kw == "impl" or kw == "trait":
            j = i + 1
            if toks[j].text == "<":
                j = _skip_generics(toks, j)
            b, is_brace = _find_body_or_semi(toks, j)
            hdr_toks = toks[j:b]
            # cut a where clause off the header
            hdr = []
            for t in hdr_toks:
                if t.kind == "i" and t.text == "where":
                    break
                hdr.append(t.text)
            header = (kw + " " + " ".join(hdr)).strip()
            if not is_brace:
                i = b + 1
                continue
            end = match_close(toks, b) + 1
            it = Item(kw, header, owner, toks, start, end, attrs)
            it.children = parse_items(toks, b + 1, end - 1, header)
            items.append(it)
            i = end
        elif kw == "mod":
            name = toks[i + 1].text
            b, is_brace = _find_body_or_semi(toks, i + 2)
            end = match_close(toks, b) + 1 if is_brace else b + 1
            it = Item("mod", name, owner, toks, start, end, attrs)
            items.append(it)
            i = end
        elif kw in ("use", "type"):
            b, is_brace = _find_body_or_semi(toks, i + 1)
            # `use a::{b, c};` has braces before the ';'
            k = i + 1
            while True:
                t = toks[k]
                if t.kind == "p" and t.text in ("(", "[", "{"):
                    k = match_close(toks, k) + 1
                    continue
                if t.kind == "p" and t.text == ";":
                    break
                k += 1
            items.append(Item(kw, toks[i + 1].text, owner, toks, start, k + 1, attrs))
            i = k + 1
        elif kw == "macro_rules":
            # macro_rules! name { ... }  or ( ... );
            k = i + 3
            end = match_close(toks, k) + 1
            if end < hi and toks[end].text == ";":
                end += 1
            items.append(Item("macro", toks[i + 2].text, owner, toks, start, end, attrs))
            i = end
        else:
            # macro invocation at item level or something unknown: skip to ';' or matching brace
            k = i
            while k < hi:
                t = toks[k]
                if t.kind == "p" and t.text in ("(", "[", "{"):
                    k2 = match_close(toks, k)
                    if t.text == "{":
                        k = k2 + 1
                        break
                    k = k2 + 1
                    continue
                if t.kind == "p" and t.text == ";":
                    k += 1
                    break
                k += 1
            items.append(Item("other", toks[i].text, owner, toks, start, k, attrs))
            i = k
    return items


def index_items(items, out=None):
    if out is None:
        out = {}
    for it in items:
        out.setdefault(it.key(), []).append(it)
        if it.children:
            index_items(it.children, out)
    return out


def load(path):
    src = open(path).read()
    toks = tokenize(src)
    return src, toks, parse_items(toks)


if __name__ == "__main__":
    import sys
    src, toks, items = load(sys.argv[1])
    for k, v in index_items(items).items():
        print(k, len(v))

"""Bounded exhaustive NATIVE checks: ordinary #[test] functions (cfg verif_replay) in the per-run scratch copy of the crate, run with
cargo test on the repository toolchain.  They stand in (labelled bounded) where neither Verus nor CBMC can read a body."""
import os
import re
import subprocess
import time

ENV = dict(os.environ, CARGO_NET_OFFLINE="true")


def run_native(session, tests, timeout=3600):
    """session: kani_run.KaniSession (provides the scratch crate).  tests: list of test function names.
    returns {name: {'status': 'ok'|'failed'|'missing', 'message': str}}, raw tail, wall seconds"""
    session.build()
    env = dict(ENV, RUSTFLAGS="--cfg verif_replay", CARGO_TARGET_DIR=os.path.join(session.dir, "target-replay"))
    cmd = ["cargo", "test", "--offline", "--lib", "x14_", "--", "--test-threads", "8"]
    # run by common filter when all tests share it, else by explicit names one by one
    if not all(t.startswith("x14_") for t in tests):
        cmd = ["cargo", "test", "--offline", "--lib", "--"] + tests + ["--test-threads", "8"]
    session.cmds.append("RUSTFLAGS='--cfg verif_replay' " + " ".join(cmd))
    t0 = time.time()
    try:
        p = subprocess.run(cmd, cwd=session.dir, env=env, stdout=subprocess.PIPE, stderr=subprocess.STDOUT, text=True, timeout=timeout)
        text = p.stdout
    except subprocess.TimeoutExpired as e:
        text = (e.stdout or "") if isinstance(e.stdout, str) else ""
    wall = time.time() - t0
    out = {}
    for t in tests:
        m = re.search(r"test \S*::%s \.\.\. (ok|FAILED)" % re.escape(t), text)
        if not m:
            out[t] = {"status": "missing", "message": ""}
        elif m.group(1) == "ok":
            out[t] = {"status": "ok", "message": ""}
        else:
            mm = re.search(r"---- \S*::%s stdout ----\n(.*?)(?:\n\n|\nnote:)" % re.escape(t), text, re.S)
            out[t] = {"status": "failed", "message": (mm.group(1) if mm else "")[:2000]}
    compile_failed = "error: could not compile" in text
    return out, text[-3000:], round(wall, 1), compile_failed

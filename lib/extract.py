"""Overlay-driven extraction of real redb items into a single Verus file.

An overlay (`units/<unit>.ovl`) is a sequence of blocks introduced by directive lines:

    //@@ verbatim                      specification text (spec fns, lemmas, helper fns), copied as is
    //@@ item <path> | <key> [| json]  one item of /repo/<path> (key as printed by items.py), followed by
                                       the *same item text* carrying annotation comments:
                                           //@ <verus text to end of line>
                                           /*@ <verus text> @*/
The annotated item, with its comments removed, must be token-identical to the item found in
/repo *after* the fixed rule table (rules.py) — then the emitted text is the overlay text with the
annotation comments opened up.  If /repo's item differs (someone edited the code), the annotations
are transplanted onto the *new* tokens by token alignment, so that Verus always checks the code
that is in /repo now, never the copy in the overlay.
"""
import difflib
import json
import os
import re
import sys

sys.path.insert(0, os.path.dirname(os.path.abspath(__file__)))
from rtok import tokenize, Tok  # noqa: E402
import items as itemsmod  # noqa: E402
import rules as rulesmod  # noqa: E402


class LostAnchor(Exception):
    pass


def is_ann(tok):
    return tok.kind == "c" and ((tok.text.startswith("//@") and not tok.text.startswith("//@@")) or tok.text.startswith("/*@"))


def ann_text(tok):
    s = tok.text
    if s.startswith("//@"):
        return s[3:]
    assert s.startswith("/*@") and s.endswith("@*/"), s[:60]
    return s[3:-3]


def open_annotations(text):
    """overlay item text -> Verus text (annotation comments opened; other comments kept)"""
    toks = tokenize(text, keep_comments=True)
    out = []
    pos = 0
    for t in toks:
        if is_ann(t):
            out.append(text[pos:t.start])
            body = ann_text(t)
            # keep the line structure identical: `//@` -> 3 spaces, `/*@`..`@*/` -> 3 spaces each
            if t.text.startswith("//@"):
                out.append("   " + body)
            else:
                out.append("   " + body + "   ")
            pos = t.end
    out.append(text[pos:])
    return "".join(out)


def skeleton(text):
    """code tokens of an annotated item (comments removed, visibility normalised)"""
    toks = tokenize(text, keep_comments=False)
    t, _ = rulesmod.r_visibility([x.text for x in toks])
    return t


def parse_overlay(path):
    blocks = []
    cur = None
    for lineno, line in enumerate(open(path).read().split("\n"), 1):
        if line.startswith("//@@"):
            d = line[4:].strip()
            if d.startswith("verbatim"):
                cur = {"kind": "verbatim", "line": lineno, "text": []}
            elif d.startswith("item"):
                parts = [p.strip() for p in d[4:].split("|", 2)]
                opts = json.loads(parts[2]) if len(parts) > 2 and parts[2] else {}
                cur = {"kind": "item", "line": lineno, "path": parts[0], "key": parts[1], "opts": opts, "text": []}
            elif d.startswith("unit") or d.startswith("#"):
                continue
            else:
                raise ValueError("%s:%d unknown directive %r" % (path, lineno, d))
            blocks.append(cur)
        else:
            if cur is None:
                if line.strip():
                    raise ValueError("%s:%d text before first directive" % (path, lineno))
                continue
            cur["text"].append(line)
    for b in blocks:
        b["text"] = "\n".join(b["text"])
    return blocks


_src_cache = {}


def load_source(repo, rel):
    p = os.path.join(repo, rel)
    if p not in _src_cache:
        src, toks, its = itemsmod.load(p)
        _src_cache[p] = (src, toks, itemsmod.index_items(its))
    return _src_cache[p]


def extra_rules(opts):
    ex = []
    if "R7" in opts:
        ex.append(("R7", opts["R7"]))
    if opts.get("R5"):
        ex.append(("R5",))
    if opts.get("R14"):
        ex.append(("R14",))
    if opts.get("R17"):
        ex.append(("R17",))
    if "R18" in opts:
        ex.append(("R18", list(opts["R18"])))
    for frm, to in opts.get("RX", []):
        ex.append(("RX", frm.split(), to.split()))
    for frm, to in opts.get("RXO", []):
        ex.append(("RXO", frm.split(), to.split()))
    return ex


def real_tokens(repo, block):
    src, toks, index = load_source(repo, block["path"])
    found = index.get(block["key"])
    if not found:
        raise LostAnchor("item %r not found in %s" % (block["key"], block["path"]))
    nth = block["opts"].get("nth", 0)
    if len(found) <= nth:
        raise LostAnchor("item %r: occurrence %d not found in %s" % (block["key"], nth, block["path"]))
    it = found[nth]
    raw = [t.text for t in it.tokens()]
    t, fired = rulesmod.apply_rules(raw, extra_rules(block["opts"]))
    if fired.get("RX-miss"):
        raise LostAnchor("item %r: a per-item replacement rule no longer matches" % block["key"])
    line = src.count("\n", 0, it.toks[it.lo].start) + 1
    frag = block["opts"].get("fragment")
    if frag:
        # a contiguous run of statements of the body: from the first occurrence of the token sequence `start` to the
        # first `;` at the same bracket depth after the first occurrence of the token `end_after` that follows it.
        # What is dropped (the statements before and after) is stated in the overlay next to the item.
        st = frag["start"].split()
        a = None
        for i in range(len(t) - len(st) + 1):
            if t[i:i + len(st)] == st:
                a = i
                break
        if a is None:
            raise LostAnchor("item %r: fragment start %r not found" % (block["key"], frag["start"]))
        if frag.get("to_end"):
            # up to (not including) the closing brace of the function body: the tail expression is part of the fragment
            return t[a:len(t) - 1], fired, it, line
        if "end_before" in frag:
            eb = frag["end_before"].split()
            e = None
            for i in range(a, len(t) - len(eb) + 1):
                if t[i:i + len(eb)] == eb:
                    e = i
                    break
            if e is None:
                raise LostAnchor("item %r: fragment end %r not found" % (block["key"], frag["end_before"]))
            return t[a:e], fired, it, line
        j = a
        while j < len(t) and t[j] != frag["end_after"]:
            j += 1
        if j >= len(t):
            raise LostAnchor("item %r: fragment end marker %r not found" % (block["key"], frag["end_after"]))
        depth = 0
        while j < len(t):
            if t[j] in ("(", "[", "{"):
                depth += 1
            elif t[j] in (")", "]", "}"):
                depth -= 1
                if depth < 0:
                    raise LostAnchor("item %r: fragment end not found at statement level" % block["key"])
            elif t[j] == ";" and depth == 0:
                break
            j += 1
        t = t[a:j + 1]
    return t, fired, it, line


def pretty(tokens):
    """re-emit a token list as readable Rust (used only when the code in /repo changed)"""
    out = []
    indent = 0
    line = []

    def flush():
        if line:
            out.append("    " * indent_at[0] + " ".join(line))
            line.clear()
    indent_at = [0]
    for i, t in enumerate(tokens):
        if t == "}":
            flush()
            indent = max(0, indent - 1)
            indent_at[0] = indent
            line.append(t)
            nxt = tokens[i + 1] if i + 1 < len(tokens) else ""
            if nxt not in (";", ",", ")", ".", "else", "?"):
                flush()
            continue
        if not line:
            indent_at[0] = indent
        line.append(t)
        if t == "{":
            flush()
            indent += 1
        elif t == ";":
            flush()
    flush()
    return "\n".join(out)


def add_pub(tokens, kind):
    """re-add `pub` after R1 stripped visibility (transplant path only)"""
    t = list(tokens)
    if kind in ("fn", "const"):
        return ["pub"] + t
    if kind in ("struct",):
        out = ["pub"]
        depth = 0
        for i, x in enumerate(t):
            if x in ("{", "(", "["):
                depth += 1
            elif x in ("}", ")", "]"):
                depth -= 1
            if depth == 1 and i > 0 and t[i - 1] in ("{", ",") and i + 1 < len(t) and t[i + 1] == ":" and x not in ("}",):
                out.append("pub")
            out.append(x)
        return out
    return t


def transplant(ovl_text, new_tokens, kind):
    """Return Verus text for `new_tokens` carrying the overlay's annotations at aligned positions."""
    toks = tokenize(ovl_text, keep_comments=True)
    skel = []          # code token texts (visibility stripped)
    anns = []          # (skeleton index the annotation precedes, text)
    i = 0
    raw = [t for t in toks if t.kind != "c" or is_ann(t)]
    k = 0
    while k < len(raw):
        t = raw[k]
        if is_ann(t):
            anns.append((len(skel), ann_text(t), t.text.startswith("//@")))
            k += 1
            continue
        if t.text == "pub":
            if k + 1 < len(raw) and raw[k + 1].text == "(":
                depth = 0
                k += 1
                while True:
                    if raw[k].text == "(":
                        depth += 1
                    elif raw[k].text == ")":
                        depth -= 1
                        if depth == 0:
                            break
                    k += 1
            k += 1
            continue
        skel.append(t.text)
        k += 1
    sm = difflib.SequenceMatcher(None, skel, new_tokens, autojunk=False)
    fwd = {}
    for a, b, n in sm.get_matching_blocks():
        for d in range(n):
            fwd[a + d] = b + d
    placed = {}      # new index -> [annotation text]
    for idx, text, is_line in anns:
        j = None
        st = text.strip()
        # annotations that belong to the token BEFORE them (`in iter:`, `-> (r:`, `T )`, `x : Type`) follow that token when code
        # was inserted after it; everything else (contracts before `{`, proof blocks before a statement) stays in front of
        # the token that followed it
        prefer_prev = re.match(r"^iter\w*:$", st) is not None or re.match(r"^\(\s*\w+\s*:$", st) is not None or st.startswith(":") or st.startswith(")")
        if prefer_prev and idx - 1 in fwd:
            j = fwd[idx - 1] + 1
        elif idx in fwd:
            j = fwd[idx]
        elif idx - 1 in fwd:
            j = fwd[idx - 1] + 1
        else:
            # nearest matched token after, else before
            a = idx
            while a < len(skel) and a not in fwd:
                a += 1
            if a < len(skel):
                j = fwd[a]
            else:
                a = idx - 1
                while a >= 0 and a not in fwd:
                    a -= 1
                j = fwd[a] + 1 if a >= 0 else 0
        placed.setdefault(j, []).append((text, is_line))
    # Tail bindings.  An annotation that ends in `let <name> =` wraps the REAL tail expression up to the next annotation that starts
    # with `;` (`let r = <tail> ; proof { .. } r`).  That is meaning-preserving only if what lies between is ONE expression.  When the
    # code in /repo changed so that statements now precede the tail expression (`f(x)` became `f(x); y`), the binding is moved to
    # the last expression: the statements keep running as statements and the value that is really returned is the one bound.
    order = sorted(placed)
    for a, j1 in enumerate(order):
        for n_ann, (text, is_line) in enumerate(list(placed[j1])):
            m = re.search(r"let\s+(?:ghost\s+)?\w+\s*=\s*$", text)
            if not m or is_line:
                continue
            j2 = None
            for jj in order:
                if jj > j1 and any(t.lstrip().startswith(";") for t, _ in placed[jj]):
                    j2 = jj
                    break
            if j2 is None:
                continue
            depth, last_semi = 0, None
            for q in range(j1, j2):
                x = new_tokens[q]
                if x in ("(", "[", "{"):
                    depth += 1
                elif x in (")", "]", "}"):
                    depth -= 1
                elif x == ";" and depth == 0:
                    last_semi = q
            if last_semi is None:
                continue
            head, tail = text[:m.start()], text[m.start():]
            placed[j1][n_ann] = (head, is_line)
            placed.setdefault(last_semi + 1, []).append((tail, False))
    # emit
    out_tokens = []
    marks = {}
    for j in range(len(new_tokens) + 1):
        for text, is_line in placed.get(j, []):
            mk = "\x00%d\x01" % len(marks)
            out_tokens.append(mk)
            marks[mk] = (text, is_line)
        if j < len(new_tokens):
            out_tokens.append(new_tokens[j])
    # add pub
    code_only = [x for x in out_tokens]
    # pub insertion works on the code tokens; do it on a copy that skips marks
    res = []
    first_code = True
    depth = 0
    prev_code = None
    for idx, x in enumerate(code_only):
        if x.startswith("\x00"):
            res.append(x)
            continue
        if first_code and kind in ("fn", "const", "struct"):
            res.append("pub")
            first_code = False
        if kind == "struct":
            if x in ("{", "(", "["):
                depth += 1
            elif x in ("}", ")", "]"):
                depth -= 1
            nxt = None
            for y in code_only[idx + 1:]:
                if not y.startswith("\x00"):
                    nxt = y
                    break
            if depth == 1 and prev_code in ("{", ",") and nxt == ":" and x != "}":
                res.append("pub")
        res.append(x)
        prev_code = x
    text = pretty(res)
    for m, (ann, is_line) in marks.items():
        if is_line:
            text = text.replace(m + " ", "\n" + ann + "\n").replace(m, "\n" + ann + "\n")
        else:
            text = text.replace(m, " " + ann + " ")
    return text


def build_unit(repo, overlay_path, out_path):
    """Returns a report dict; writes the Verus file."""
    blocks = parse_overlay(overlay_path)
    out_lines = ["// GENERATED by /verif/lib/extract.py from %s and /repo — do not edit" % os.path.basename(overlay_path),
                 "#![allow(unused_imports, dead_code, unused_variables, unused_mut, unused_parens)]",
                 "use vstd::prelude::*;", "verus! {"]
    report = {"items": [], "changed": [], "rules": {}, "verbatim_blocks": 0, "linemap": []}

    def emit(text, origin):
        start = len(out_lines) + 1
        ls = text.split("\n")
        out_lines.extend(ls)
        report["linemap"].append((start, start + len(ls) - 1, origin))

    for b in blocks:
        if b["kind"] == "verbatim":
            report["verbatim_blocks"] += 1
            emit(b["text"], {"kind": "verbatim", "ovl_line": b["line"]})
            continue
        new_toks, fired, it, src_line = real_tokens(repo, b)
        for r, n in fired.items():
            report["rules"][r] = report["rules"].get(r, 0) + n
        skel = skeleton(b["text"])
        owner = it.owner
        wrap = owner and not b["opts"].get("free")
        changed = skel != new_toks
        if not changed:
            body = open_annotations(b["text"])
        else:
            body = transplant(b["text"], new_toks, "fragment" if b["opts"].get("fragment") else it.kind)
            if wrap:
                body = "\n".join("    " + l for l in body.split("\n"))
            report["changed"].append({"key": b["key"], "path": b["path"]})
        origin = {"kind": "item", "key": b["key"], "path": b["path"], "src_line": src_line, "ovl_line": b["line"],
                  "changed": changed, "rules": fired, "emitted_owner": ("" if b["opts"].get("free") else b["opts"].get("impl_header")), "emitted_name": b["opts"].get("name"),
                  "assumed": "verifier::external_body" in b["text"]}
        report["items"].append(origin)
        if b["opts"].get("fragment"):
            # synthetic signature around the extracted statements; the overlay text opens the body with its contract
            body = "    " + b["opts"]["wrap_fn"] + "\n" + body + "\n    " + b["opts"].get("wrap_tail", "") + "\n    }"
        if wrap:
            hdr = owner if b["opts"].get("impl_header") is None else b["opts"]["impl_header"]
            emit(hdr + " {", {"kind": "wrap"})
            emit(body, origin)
            emit("}", {"kind": "wrap"})
        else:
            emit(body, origin)
    out_lines += ["fn main() {}", "} // verus!"]
    with open(out_path, "w") as f:
        f.write("\n".join(out_lines) + "\n")
    return report


def origin_of_line(report, line):
    for a, b, o in report["linemap"]:
        if a <= line <= b:
            return o
    return None


if __name__ == "__main__":
    rep = build_unit(sys.argv[1], sys.argv[2], sys.argv[3])
    print(json.dumps({k: v for k, v in rep.items() if k != "linemap"}, indent=1))


# ---------------------------------------------------------------------------------------------------------------
# Lint: annotations must not smuggle executable code.  After removing ghost-only constructs, what is left of an
# annotation must be one of a few shapes that cannot change what the real code computes.
def _strip_balanced(toks, i):
    depth = 0
    j = i
    while j < len(toks):
        if toks[j] in ("(", "[", "{"):
            depth += 1
        elif toks[j] in (")", "]", "}"):
            depth -= 1
            if depth == 0:
                return j + 1
        j += 1
    return len(toks)


def lint_annotation(text):
    """returns None if harmless, else a description"""
    t = [x.text for x in tokenize(text, keep_comments=False)]
    if not t:
        return None
    HEADER = {"requires", "ensures", "decreases", "invariant", "invariant_except_break", "recommends", "returns"}
    # named return wrapper pieces
    if len(t) >= 3 and t[0] == "(" and t[2] == ":" and len(t) == 3:
        return None
    if t[0] == ")":
        t = t[1:]
        if not t:
            return None
        if t[0] not in HEADER:
            return "text after named return is not a contract clause: " + " ".join(t[:8])
        return None
    if t[0] in HEADER:
        return None
    # contract of a closure: `|| -> (r: T) ensures .. {` <real body expression> `}`  (braces only group the real expression)
    if t[0] == "->" and "ensures" in t and t[-1] == "{" and t.count("{") - t.count("}") == 1:
        return None
    if t == ["}"]:
        return None
    if t[0] == "#" and len(t) > 1 and t[1] == "[":
        j = _strip_balanced(t, 1)
        return None if j == len(t) else lint_annotation(" ".join(t[j:]))
    if len(t) == 2 and t[1] == ":" and re.match(r"^iter\w*$", t[0]):
        return None
    if t[0] == ":" and "=" not in t and ";" not in t:
        return None  # type ascription
    # statement-level: strip ghost-only statements
    i = 0
    rest = []
    while i < len(t):
        if t[i] == "proof" and i + 1 < len(t) and t[i + 1] == "{":
            i = _strip_balanced(t, i + 1)
            continue
        if t[i] == "let" and i + 1 < len(t) and t[i + 1] in ("ghost", "tracked"):
            # to the terminating ';' at depth 0
            d = 0
            j = i
            while j < len(t):
                if t[j] in ("(", "[", "{"):
                    d += 1
                elif t[j] in (")", "]", "}"):
                    d -= 1
                elif t[j] == ";" and d == 0:
                    break
                j += 1
            i = j + 1
            continue
        if t[i] == "assert":
            d = 0
            j = i
            while j < len(t):
                if t[j] in ("(", "[", "{"):
                    d += 1
                elif t[j] in (")", "]", "}"):
                    d -= 1
                    if d == 0 and t[j] == "}" :
                        j += 1
                        break
                elif t[j] == ";" and d == 0:
                    j += 1
                    break
                j += 1
            i = j
            continue
        rest.append(t[i])
        i += 1
    if not rest:
        return None
    # binding of the real expression that follows:  `let r =`  ...real...  `; [proof {..}] r`
    if len(rest) == 3 and rest[0] == "let" and rest[2] == "=":
        return None
    if len(rest) == 2 and rest[0] == ";":
        return None
    if rest == [";"]:
        return None
    if rest == ["else", "{", "}"]:
        return None  # an else branch holding ghost code only
    return "executable text in annotation: " + " ".join(rest[:12])


def lint_overlay(path, helpers=None):
    """annotations must not carry executable text; verbatim blocks may define executable functions only if they are
    named in the unit's `helpers` allowlist (trusted or separately verified helper functions)"""
    out = []
    for b in parse_overlay(path):
        if b["kind"] == "verbatim":
            if helpers is None:
                continue
            for l in b["text"].split("\n"):
                m = re.match(r"^\s*(?:pub(?:\([a-z]+\))?\s+)?(?:const\s+)?fn\s+(\w+)", l)
                if m and m.group(1) not in helpers:
                    out.append(("verbatim block at overlay line %d" % b["line"], "executable function %s defined outside /repo" % m.group(1)))
            continue
        if b["kind"] != "item":
            continue
        for tk in tokenize(b["text"], keep_comments=True):
            if is_ann(tk):
                r = lint_annotation(ann_text(tk))
                if r:
                    out.append((b["key"], r))
    return out

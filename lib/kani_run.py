"""Run Kani harnesses on a per-run scratch copy of the real crate; parse results; concrete playback; replay."""
import json
import os
import re
import subprocess
import time

import scratch

VERIF = os.path.dirname(os.path.dirname(os.path.abspath(__file__)))
ENV = dict(os.environ, CARGO_NET_OFFLINE="true")


def harness_files(registry):
    """registry['kani_files']: {harness file name: repo-relative source file it is appended to}"""
    inject = {}
    for fname, rel in registry["kani_files"].items():
        inject.setdefault(rel, []).append(os.path.join(VERIF, "kani", fname))
    return inject


def parse_kani_output(text):
    """-> {full harness name: {'status','failed_checks','covers','time_s','unwinding_failure','stubs','raw'}}"""
    res = {}
    thread_h = {}
    cur = None
    last_checked = None
    for line in text.split("\n"):
        m = re.match(r"^(?:Thread (\d+): )?Checking harness (\S+?)\.\.\.\s*$", line)
        if m:
            h = m.group(2)
            res[h] = {"status": "unknown", "failed_checks": [], "covers": None, "time_s": None,
                      "unwinding_failure": False, "stubs": [], "raw": []}
            thread_h[m.group(1)] = h
            last_checked = h
            cur = None if m.group(1) is not None else h
            continue
        m = re.match(r"^Thread (\d+):\s*(.*)$", line)
        if m:
            rest = m.group(2)
            h = thread_h.get(m.group(1))
            sm = re.match(r"^- Stub: (.*)$", rest.strip())
            if sm and h:
                res[h]["stubs"].append(sm.group(1))
                continue
            cur = h
            if rest.strip():
                line = rest
            else:
                continue
        if line.startswith("Manual Harness Summary") or line.startswith("Complete - "):
            cur = None
            continue
        if cur is None:
            continue
        r = res[cur]
        r["raw"].append(line)
        sm = re.match(r"^\s*- Stub: (.*)$", line)
        if sm:
            r["stubs"].append(sm.group(1))
        if line.startswith("VERIFICATION:- SUCCESSFUL"):
            r["status"] = "success"
        elif line.startswith("VERIFICATION:- FAILED"):
            r["status"] = "failed"
        m = re.match(r"^Failed Checks: (.*)$", line)
        if m:
            r["failed_checks"].append({"desc": m.group(1), "where": ""})
        m = re.match(r"^ File: (.*)$", line)
        if m and r["failed_checks"]:
            r["failed_checks"][-1]["where"] = m.group(1)
        m = re.match(r"^ \*\* (\d+) of (\d+) cover properties satisfied", line)
        if m:
            r["covers"] = (int(m.group(1)), int(m.group(2)))
        m = re.match(r"^Verification Time: ([0-9.]+)s", line)
        if m:
            r["time_s"] = float(m.group(1))
        if "unwinding failures" in line or "unwinding assertion" in line:
            r["unwinding_failure"] = True
        if "CBMC failed" in line or "out of memory" in line.lower() or "CBMC timed out" in line:
            r["status"] = "error"
    for r in res.values():
        r["raw"] = "\n".join(r["raw"])[-4000:]
    return res


class KaniSession:
    def __init__(self, repo, registry, scratch_dir):
        self.repo = repo
        self.registry = registry
        self.dir = os.path.join(scratch_dir, "crate")
        self.built = False
        self.cmds = []

    def build(self):
        if not self.built:
            scratch.make_scratch_crate(self.repo, self.dir, harness_files(self.registry))
            self.built = True

    def run(self, harnesses, jobs=8, timeout=3600, extra=()):
        """harnesses: list of unique harness function names.  Returns (results by short name, raw text, status)"""
        self.build()
        cmd = ["cargo", "kani", "-Z", "stubbing", "--output-format", "terse", "-j", str(max(2, jobs))]
        for h in harnesses:
            cmd += ["--harness", h]
        cmd += list(extra)
        self.cmds.append("CARGO_NET_OFFLINE=true " + " ".join(cmd))
        t0 = time.time()
        try:
            p = subprocess.run(cmd, cwd=self.dir, env=ENV, stdout=subprocess.PIPE, stderr=subprocess.STDOUT, text=True,
                               timeout=timeout)
            text = p.stdout
            timed_out = False
        except subprocess.TimeoutExpired as e:
            text = (e.stdout or b"").decode("utf8", "replace") if isinstance(e.stdout, bytes) else (e.stdout or "")
            timed_out = True
            subprocess.run(["pkill", "-f", self.dir], check=False)
        wall = time.time() - t0
        parsed = parse_kani_output(text)
        out = {}
        for h in harnesses:
            match = [k for k in parsed if k.split("::")[-1] == h]
            if len(match) == 1:
                out[h] = parsed[match[0]]
                out[h]["full_name"] = match[0]
            else:
                out[h] = {"status": "missing", "failed_checks": [], "covers": None, "time_s": None,
                          "unwinding_failure": False, "stubs": [], "raw": ""}
        compile_failed = ("error: could not compile" in text) or ("error[E" in text and not parsed)
        return out, text, {"timed_out": timed_out, "compile_failed": compile_failed, "wall_s": round(wall, 1)}

    def playback(self, harness, timeout=1800):
        """re-run one failing harness with concrete playback; returns list of byte lists or None"""
        cmd = ["cargo", "kani", "-Z", "stubbing", "-Z", "concrete-playback", "--concrete-playback=print",
               "--harness", harness]
        self.cmds.append("CARGO_NET_OFFLINE=true " + " ".join(cmd))
        try:
            p = subprocess.run(cmd, cwd=self.dir, env=ENV, stdout=subprocess.PIPE, stderr=subprocess.STDOUT, text=True,
                               timeout=timeout)
        except subprocess.TimeoutExpired:
            return None, "playback timed out"
        text = p.stdout
        m = re.search(r"let concrete_vals: Vec<Vec<u8>> = vec!\[(.*?)\n\s*\];", text, re.S)
        if not m:
            return None, text[-3000:]
        vals = []
        for line in m.group(1).split("\n"):
            lm = re.match(r"^\s*vec!\[([0-9, ]*)\],?\s*$", line)
            if lm:
                vals.append([int(x) for x in lm.group(1).replace(" ", "").split(",") if x])
        return vals, text[-3000:]

    def replay(self, harness, vals, out_dir, timeout=1800):
        """run the same harness as an ordinary #[test] on the real code (repository toolchain, no stubs) with the concrete
        values; returns ('confirmed'|'not-reproduced'|'assume-rejected'|'error', output tail).
        Kani's concrete playback does not always list the values in the order the harness draws them (values drawn inside
        callees such as a mock backend come out of order), so when the listed order does not reproduce the failure the other
        orders of the same values are tried (all permutations up to 6 values, else reversal and rotations)."""
        import itertools
        self.build()
        os.makedirs(out_dir, exist_ok=True)
        vf = os.path.join(out_dir, harness + ".vals")
        env = dict(ENV, RUSTFLAGS="--cfg verif_replay", VERIF_REPLAY_FILE=vf,
                   CARGO_TARGET_DIR=os.path.join(self.dir, "target-replay"))

        def write_vals(vs):
            with open(vf, "w") as f:
                f.write("# one line per vk::any() call, little-endian bytes in hex\n")
                for v in vs:
                    f.write("".join("%02x" % b for b in v) + "\n")
        write_vals(vals)
        cmd = ["cargo", "test", "--offline", "--lib", "--no-run"]
        self.cmds.append("RUSTFLAGS='--cfg verif_replay' VERIF_REPLAY_FILE=%s cargo test --offline --lib %s -- --nocapture" % (vf, harness))
        try:
            p = subprocess.run(cmd, cwd=self.dir, env=env, stdout=subprocess.PIPE, stderr=subprocess.STDOUT, text=True, timeout=timeout)
        except subprocess.TimeoutExpired:
            return "error", "replay build timed out"
        m = re.search(r"Executable unittests src/lib.rs \((.*?)\)", p.stdout)
        if not m:
            return "error", p.stdout[-3000:]
        exe = os.path.join(self.dir, m.group(1)) if not os.path.isabs(m.group(1)) else m.group(1)

        def run_once():
            try:
                q = subprocess.run([exe, harness, "--test-threads", "1", "--nocapture"], cwd=self.dir, env=env, stdout=subprocess.PIPE,
                                   stderr=subprocess.STDOUT, text=True, timeout=300)
            except subprocess.TimeoutExpired:
                return "error", "replay timed out"
            text = q.stdout
            tail = text[-3000:]
            if "VK-ASSUME-REJECTED" in text:
                return "assume-rejected", tail
            if re.search(r"test .*%s \.\.\. FAILED" % re.escape(harness), text) or ("panicked at" in text and "test result: FAILED" in text):
                return "confirmed", tail
            if re.search(r"test .*%s \.\.\. ok" % re.escape(harness), text):
                return "not-reproduced", tail
            return "error", tail
        status, tail = run_once()
        if status == "confirmed":
            return status, tail
        first = (status, tail)
        if len(vals) <= 6:
            orders = itertools.permutations(range(len(vals)))
        else:
            n = len(vals)
            orders = [tuple(reversed(range(n)))] + [tuple((i + k) % n for i in range(n)) for k in range(1, n)]
        tried = 0
        for od in orders:
            if list(od) == list(range(len(vals))):
                continue
            tried += 1
            if tried > 720:
                break
            write_vals([vals[i] for i in od])
            st, tl = run_once()
            if st == "confirmed":
                return st, "(values reordered: %s)\n" % (list(od),) + tl
        write_vals(vals)
        return first

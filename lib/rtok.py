"""Rust token scanner used by the extractor.

Understands line/block (nested) comments, string / raw string / byte string / char literals,
lifetimes, numbers and multi-character punctuation.  Tokens keep their source offsets so the
extractor can slice the original text.  Comments are returned as tokens of kind 'c' so that the
overlay reader can recognise annotation comments (`//@ ...` and `/*@ ... @*/`).
"""
import re

PUNCT3 = ("<<=", ">>=", "..=", "...")
PUNCT2 = ("::", "->", "=>", "==", "!=", "<=", ">=", "&&", "||", "+=", "-=", "*=", "/=", "%=",
          "^=", "&=", "|=", "<<", ">>", "..")

_ident = re.compile(r"[A-Za-z_][A-Za-z0-9_]*")
_num = re.compile(r"(0x[0-9a-fA-F_]+|0b[01_]+|0o[0-7_]+|[0-9][0-9_]*(\.[0-9][0-9_]*)?([eE][+-]?[0-9_]+)?)([A-Za-z][A-Za-z0-9_]*)?")


class Tok:
    __slots__ = ("kind", "text", "start", "end")

    def __init__(self, kind, text, start, end):
        self.kind = kind      # 'i' ident/keyword, 'n' number, 's' string/char, 'l' lifetime, 'p' punct, 'c' comment
        self.text = text
        self.start = start
        self.end = end

    def __repr__(self):
        return "Tok(%s,%r)" % (self.kind, self.text)


class LexError(Exception):
    pass


def tokenize(src, keep_comments=False):
    toks = []
    i = 0
    n = len(src)
    while i < n:
        c = src[i]
        if c in " \t\r\n":
            i += 1
            continue
        if src.startswith("//", i):
            j = src.find("\n", i)
            if j < 0:
                j = n
            if keep_comments:
                toks.append(Tok("c", src[i:j], i, j))
            i = j
            continue
        if src.startswith("/*", i):
            depth = 1
            j = i + 2
            while j < n and depth:
                if src.startswith("/*", j):
                    depth += 1
                    j += 2
                elif src.startswith("*/", j):
                    depth -= 1
                    j += 2
                else:
                    j += 1
            if depth:
                raise LexError("unterminated block comment at %d" % i)
            if keep_comments:
                toks.append(Tok("c", src[i:j], i, j))
            i = j
            continue
        # raw strings / byte strings
        m = re.match(r"(br|rb|r|b|c)?(#*)\"", src[i:i + 40])
        if m and (m.group(1) or "") in ("r", "br", "rb") :
            hashes = m.group(2)
            j = src.find('"' + hashes, i + m.end())
            if j < 0:
                raise LexError("unterminated raw string at %d" % i)
            j += 1 + len(hashes)
            toks.append(Tok("s", src[i:j], i, j))
            i = j
            continue
        if c == '"' or (c in "bc" and i + 1 < n and src[i + 1] == '"'):
            j = i + (1 if c == '"' else 2)
            while j < n and src[j] != '"':
                if src[j] == "\\":
                    j += 1
                j += 1
            if j >= n:
                raise LexError("unterminated string at %d" % i)
            j += 1
            toks.append(Tok("s", src[i:j], i, j))
            i = j
            continue
        if c == "'" or (c == "b" and i + 1 < n and src[i + 1] == "'"):
            k = i + (0 if c == "'" else 1)
            # char literal or lifetime
            m = re.match(r"'(\\x[0-9a-fA-F]{2}|\\u\{[0-9a-fA-F_]+\}|\\.|[^\\'])'", src[k:k + 16])
            if m:
                j = k + m.end()
                toks.append(Tok("s", src[i:j], i, j))
                i = j
                continue
            m = re.match(r"'[A-Za-z_][A-Za-z0-9_]*", src[k:k + 80])
            if m and c == "'":
                j = k + m.end()
                toks.append(Tok("l", src[i:j], i, j))
                i = j
                continue
            raise LexError("bad quote at %d" % i)
        m = _ident.match(src, i)
        if m:
            # raw identifiers r#name
            toks.append(Tok("i", m.group(0), i, m.end()))
            i = m.end()
            continue
        if c.isdigit():
            m = _num.match(src, i)
            j = m.end()
            text = m.group(0)
            # `0..n` must not swallow the dots: the regex requires a digit after '.', fine;
            # `1.foo()` is not matched as float either.
            toks.append(Tok("n", text, i, j))
            i = j
            continue
        for p in PUNCT3:
            if src.startswith(p, i):
                toks.append(Tok("p", p, i, i + 3))
                i += 3
                break
        else:
            for p in PUNCT2:
                if src.startswith(p, i):
                    toks.append(Tok("p", p, i, i + 2))
                    i += 2
                    break
            else:
                toks.append(Tok("p", c, i, i + 1))
                i += 1
    return toks


OPEN = {"(": ")", "[": "]", "{": "}"}
CLOSE = {")", "]", "}"}


def match_close(toks, i):
    """toks[i] is an opening bracket; return index of the matching close."""
    depth = 0
    j = i
    while j < len(toks):
        t = toks[j].text
        if toks[j].kind == "p":
            if t in OPEN:
                depth += 1
            elif t in CLOSE:
                depth -= 1
                if depth == 0:
                    return j
        j += 1
    raise LexError("unbalanced bracket at token %d (%r)" % (i, toks[i].text))


def texts(toks):
    return [t.text for t in toks]

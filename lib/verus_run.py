"""Build a Verus unit from /repo's current tree and an overlay, run Verus, classify the outcome."""
import json
import os
import re
import subprocess
import time

import extract

VERUS = os.environ.get("VERIF_VERUS", "verus")

VERIF_ERR = (
    "postcondition not satisfied", "precondition not satisfied", "assertion failed",
    "invariant not satisfied", "possible arithmetic underflow/overflow", "possible division by zero",
    "decreases not satisfied", "could not prove termination", "possible bit shift underflow/overflow",
    "index out of bounds", "unreachable", "recommendation not met", "loop invariant not satisfied",
    "failed to unwrap", "possible truncation", "call to non-", "requires not satisfied",
)
UNDECIDED_ERR = ("Resource limit (rlimit) exceeded", "rlimit", "timed out", "solver")

FN_RE = re.compile(r"^\s*(?:pub(?:\([a-z]+\))?\s+)?(?:(?:open|closed|uninterp|broadcast)\s+)*(?:(spec|proof|exec|axiom)\s+)?(?:const\s+)?fn\s+([A-Za-z_0-9]+)")
IMPL_RE = re.compile(r"^impl(?:<[^>]*>)?\s+(.*?)\s*\{")


def fn_table(unit_text):
    """line -> 'Type::fn' for the function whose header most recently started"""
    table = []
    owner = ""
    cur = None
    for i, line in enumerate(unit_text.split("\n"), 1):
        m = IMPL_RE.match(line)
        if m:
            owner = m.group(1).split(" for ")[-1].strip()
            # `impl<'a, V: Key> LeafKeyIter<'a, V>` -> LeafKeyIter (Verus names functions by the bare type)
            owner = re.sub(r"^<[^>]*>\s*", "", owner)
            owner = re.sub(r"\s*<.*$", "", owner).strip()
        elif line.startswith("}"):
            owner = ""
        m = FN_RE.match(line)
        if m and (line.startswith("    ") or not line.startswith(" ")):
            indent = len(line) - len(line.lstrip())
            if indent <= 5 and not owner:
                cur = m.group(2)
            elif indent <= 5 and owner:
                cur = owner + "::" + m.group(2)
        table.append(cur)
    return table


def parse_diagnostics(stderr, unit_file):
    """split rustc-style diagnostics into blocks: [{'level','msg','line','text'}]"""
    blocks = []
    cur = None
    base = os.path.basename(unit_file)
    for line in stderr.split("\n"):
        m = re.match(r"^(error|warning|note)(\[[A-Z0-9]+\])?: (.*)$", line)
        if m:
            cur = {"level": m.group(1), "code": m.group(2), "msg": m.group(3), "line": None, "text": [line]}
            blocks.append(cur)
            continue
        if cur is None:
            continue
        cur["text"].append(line)
        m = re.match(r"^\s*--> (.*?):(\d+):(\d+)", line)
        if m and cur["line"] is None and os.path.basename(m.group(1)) == base:
            cur["line"] = int(m.group(2))
    for b in blocks:
        b["text"] = "\n".join(b["text"])
    return blocks


def run_unit(repo, overlay_path, scratch, threads=8, rlimit=None, extra_args=(), helpers=None):
    unit = os.path.splitext(os.path.basename(overlay_path))[0]
    os.makedirs(scratch, exist_ok=True)
    unit_file = os.path.join(scratch, unit + "_unit.rs")
    t0 = time.time()
    res = {"unit": unit, "status": "ok", "reason": "", "functions": {}, "failures": [], "compile_errors": [],
           "cmd": "", "wall_s": 0.0, "smt_ms": 0, "report": None}
    try:
        report = extract.build_unit(repo, overlay_path, unit_file)
    except extract.LostAnchor as e:
        res.update(status="undecided", reason="lost anchor: %s" % e)
        return res
    except Exception as e:  # lexer errors etc. on edited sources
        res.update(status="undecided", reason="extraction failed: %r" % (e,))
        return res
    res["report"] = report
    flagged = extract.lint_overlay(overlay_path, helpers)
    res["lint"] = flagged
    if flagged:
        res.update(status="undecided", reason="overlay lint: an annotation contains executable text (%s: %s)" % flagged[0])
        return res
    cmd = [VERUS, unit_file, "--triggers-mode", "silent", "--num-threads", str(threads), "--output-json", "--time",
           "--multiple-errors", "4"]
    if rlimit:
        cmd += ["--rlimit", str(rlimit)]
    cmd += list(extra_args)
    res["cmd"] = " ".join(cmd)
    p = subprocess.run(cmd, stdout=subprocess.PIPE, stderr=subprocess.PIPE, text=True, cwd=scratch)
    res["wall_s"] = round(time.time() - t0, 2)
    res["stderr"] = p.stderr
    try:
        js = json.loads(p.stdout)
    except Exception:
        js = None
    diags = parse_diagnostics(p.stderr, unit_file)
    unit_text = open(unit_file).read()
    table = fn_table(unit_text)
    res["fn_names"] = sorted(set(t for t in table if t))
    vr = (js or {}).get("verification-results")
    front_end_failed = (not js or not vr or vr.get("encountered-vir-error") or "verified" not in vr
                        or "times-ms" not in js
                        or (vr.get("encountered-error") and vr.get("verified", 0) == 0 and vr.get("errors", 0) == 0))
    if front_end_failed:
        errs = [d for d in diags if d["level"] == "error"]
        res["compile_errors"] = [{"msg": d["msg"], "line": d["line"], "text": d["text"][:2000]} for d in errs[:10]]
        res.update(status="undecided", reason="verus front end rejected the unit (unsupported construct or annotation no longer type-checks): %s"
                   % (errs[0]["msg"] if errs else "no verification results"))
        return res
    res["verified"] = vr["verified"]
    res["errors"] = vr["errors"]
    crate = unit + "_unit::"
    for mod in js["times-ms"]["smt"]["smt-run-module-times"]:
        for f in mod.get("function-breakdown", []):
            name = f["function"]
            if name.startswith(crate):
                name = name[len(crate):]
            e = res["functions"].setdefault(name, {"mode": f.get("mode:"), "success": True, "time_ms": 0, "rlimit": 0})
            e["success"] = e["success"] and bool(f["success"])
            e["time_ms"] += f.get("time", 0)
            e["rlimit"] += f.get("rlimit", 0)
            res["smt_ms"] += f.get("time", 0)
    # attach messages to functions
    for d in diags:
        if d["level"] != "error" or d["line"] is None:
            continue
        if d["msg"].startswith("aborting due to"):
            continue
        fn = table[d["line"] - 1] if 0 < d["line"] <= len(table) else None
        origin = extract.origin_of_line(report, d["line"])
        kind = "verification"
        if any(u in d["msg"] for u in ("rlimit", "Resource limit")):
            kind = "rlimit"
        res["failures"].append({"function": fn, "msg": d["msg"], "line": d["line"], "kind": kind,
                                "origin": origin, "text": d["text"][:3000]})
    # functions the solver gave up on
    return res

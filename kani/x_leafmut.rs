// Appended to src/tree_store/btree_base.rs.  BOUNDED, exhaustive NATIVE check of the contracts of the REAL in-place leaf mutations
// (LeafMutator::insert / remove / replace / remove_indices with remove_index_ranges, update_removed_indices, compact_before_hole,
// compact_tail, update_key_end, update_value_end): byte shuffling with copy_within over a page, probed with Verus and CBMC and too
// expensive for both.
//
// Ghost model: the leaf is the sequence of its (key, value) pairs.
// Contract of each operation, checked on a leaf written by the REAL RawLeafBuilder and read back by the REAL LeafAccessor:
//   insert(i, k, v)        pairs' == pairs[..i] ++ [(k, v)] ++ pairs[i..]
//   remove(i)              requires len > 1, i < len;  pairs' == pairs without index i
//   replace(i, v)          pairs' == pairs with the value at i replaced, key unchanged
//   remove_indices(I)      requires I ascending, non-empty, a proper subset;  pairs' == pairs without the indices in I
// and in every case: num_pairs, every entry(j), entry(len') is None, total_length() == required_bytes(pairs'), and the first
// total_length() bytes of the page are EXACTLY the bytes RawLeafBuilder writes for pairs' (so the checksum of the mutated leaf is the
// checksum of the rebuilt one - C10), whether the page has no slack or some.
// Bound: every leaf of at most MAXN pairs, every combination of key lengths 0..=2 / value lengths 0..=2 (fixed width: 1), all four
// fixed / variable width combinations, every position, every inserted / replacing length 0..=3, every index subset.
use super::*;
extern crate std;
use std::vec::Vec as V;

type Pair = (V<u8>, V<u8>);

fn build(pairs: &[Pair], fk: Option<usize>, fv: Option<usize>, slack: usize) -> V<u8> {
    let key_bytes: usize = pairs.iter().map(|p| p.0.len()).sum();
    let val_bytes: usize = pairs.iter().map(|p| p.1.len()).sum();
    let required = RawLeafBuilder::required_bytes(pairs.len(), key_bytes + val_bytes, fk, fv);
    let mut mem = std::vec![0u8; required + slack];
    {
        let mut b = RawLeafBuilder::new(&mut mem, pairs.len(), fk, fv, key_bytes);
        for (k, v) in pairs {
            b.append(k, v);
        }
    }
    mem
}

fn check(mem: &[u8], want: &[Pair], fk: Option<usize>, fv: Option<usize>, what: &str) {
    let acc = LeafAccessor::new(mem, fk, fv);
    assert!(acc.num_pairs() == want.len(), "{what}: num_pairs {} != {}", acc.num_pairs(), want.len());
    for (j, (k, v)) in want.iter().enumerate() {
        let e = acc.entry(j).unwrap();
        assert!(e.key() == &k[..] && e.value() == &v[..], "{what}: entry {j} is ({:?},{:?}), want ({k:?},{v:?})", e.key(), e.value());
    }
    assert!(acc.entry(want.len()).is_none(), "{what}: an entry beyond the last");
    let canon = build(want, fk, fv, 0);
    assert!(acc.total_length() == canon.len(), "{what}: total_length {} != {}", acc.total_length(), canon.len());
    assert!(mem[..canon.len()] == canon[..], "{what}: bytes differ from the rebuilt leaf\n got  {:?}\n want {:?}", &mem[..canon.len()], canon);
}

// run one operation and its check; a panic anywhere inside (the mutation, the reader, the comparison) is re-raised with the failing input
fn case(desc: &dyn Fn() -> std::string::String, f: &mut dyn FnMut()) {
    let r = std::panic::catch_unwind(std::panic::AssertUnwindSafe(|| f()));
    if let Err(e) = r {
        let msg = e.downcast_ref::<std::string::String>().cloned().or_else(|| e.downcast_ref::<&str>().map(|s| std::string::String::from(*s))).unwrap_or_default();
        panic!("failing input: {}\n{}", desc(), msg);
    }
}

fn lens(fixed: Option<usize>, max: usize) -> V<usize> {
    match fixed {
        Some(w) => std::vec![w],
        None => (0..=max).collect(),
    }
}

// every leaf of n pairs: lengths vary, contents are distinct markers (the code never looks at them)
fn leaves(n: usize, fk: Option<usize>, fv: Option<usize>, f: &mut dyn FnMut(&[Pair])) {
    fn rec(j: usize, n: usize, kl: &[usize], vl: &[usize], cur: &mut V<Pair>, f: &mut dyn FnMut(&[Pair])) {
        if j == n {
            f(cur);
            return;
        }
        for &a in kl {
            for &b in vl {
                let k: V<u8> = (0..a).map(|x| (0x10 * (j + 1) + x) as u8).collect();
                let v: V<u8> = (0..b).map(|x| (0x80 + 0x10 * (j + 1) + x) as u8).collect();
                cur.push((k, v));
                rec(j + 1, n, kl, vl, cur, f);
                cur.pop();
            }
        }
    }
    let kl = lens(fk, 2);
    let vl = lens(fv, 2);
    rec(0, n, &kl, &vl, &mut V::new(), f);
}

fn explore(maxn: usize) -> u64 {
    let mut ops: u64 = 0;
    for fk in [None, Some(1usize)] {
        for fv in [None, Some(1usize)] {
            for n in 1..=maxn {
                leaves(n, fk, fv, &mut |pairs: &[Pair]| {
                    // insert
                    for i in 0..=n {
                        for &a in &lens(fk, 3) {
                            for &b in &lens(fv, 3) {
                                let k: V<u8> = (0..a).map(|x| (0x01 + x) as u8).collect();
                                let v: V<u8> = (0..b).map(|x| (0xF1 + x) as u8).collect();
                                let delta = a + b + if fk.is_none() { 4 } else { 0 } + if fv.is_none() { 4 } else { 0 };
                                for extra in [0usize, 5] {
                                    case(&|| std::format!("leaf {pairs:?} fixed widths {fk:?}/{fv:?} slack {extra}: insert({i}, {k:?}, {v:?})"), &mut || {
                                        let mut mem = build(pairs, fk, fv, delta + extra);
                                        LeafMutator::new(&mut mem, fk, fv).insert(i, &k, &v);
                                        let mut want = pairs.to_vec();
                                        want.insert(i, (k.clone(), v.clone()));
                                        check(&mem, &want, fk, fv, "insert");
                                    });
                                    ops += 1;
                                }
                            }
                        }
                    }
                    // remove
                    if n > 1 {
                        for i in 0..n {
                            for extra in [0usize, 5] {
                                case(&|| std::format!("leaf {pairs:?} fixed widths {fk:?}/{fv:?} slack {extra}: remove({i})"), &mut || {
                                    let mut mem = build(pairs, fk, fv, extra);
                                    LeafMutator::new(&mut mem, fk, fv).remove(i);
                                    let mut want = pairs.to_vec();
                                    want.remove(i);
                                    check(&mem, &want, fk, fv, "remove");
                                });
                                ops += 1;
                            }
                        }
                    }
                    // replace
                    for i in 0..n {
                        for &b in &lens(fv, 3) {
                            let v: V<u8> = (0..b).map(|x| (0xF1 + x) as u8).collect();
                            let grow = b.saturating_sub(pairs[i].1.len());
                            for extra in [0usize, 5] {
                                case(&|| std::format!("leaf {pairs:?} fixed widths {fk:?}/{fv:?} slack {extra}: replace({i}, {v:?})"), &mut || {
                                    let mut mem = build(pairs, fk, fv, grow + extra);
                                    LeafMutator::new(&mut mem, fk, fv).replace(i, &v);
                                    let mut want = pairs.to_vec();
                                    want[i].1 = v.clone();
                                    check(&mem, &want, fk, fv, "replace");
                                });
                                ops += 1;
                            }
                        }
                    }
                    // remove_indices: every non-empty proper subset
                    for mask in 1u32..(1u32 << n) - 1 {
                        let idx: V<usize> = (0..n).filter(|j| mask & (1 << j) != 0).collect();
                        case(&|| std::format!("leaf {pairs:?} fixed widths {fk:?}/{fv:?}: remove_indices({idx:?})"), &mut || {
                            let mut mem = build(pairs, fk, fv, if mask % 2 == 0 { 0 } else { 5 });
                            LeafMutator::new(&mut mem, fk, fv).remove_indices(&idx);
                            let want: V<Pair> = pairs.iter().enumerate().filter(|(j, _)| mask & (1 << j) == 0).map(|(_, p)| p.clone()).collect();
                            check(&mem, &want, fk, fv, "remove_indices");
                        });
                        ops += 1;
                    }
                });
            }
        }
    }
    ops
}

#[cfg_attr(verif_replay, test)]
fn xb_leaf_mutator_contracts_n4() {
    for m in 1..=3 { explore(m); } // smallest failing leaf first
    let n = explore(4);
    assert!(n > 1_000_000, "vacuous: only {n} operations ran");
}

#[cfg_attr(verif_replay, test)]
fn xb_leaf_mutator_contracts_n5() {
    let n = explore(5);
    assert!(n > 10_000_000, "vacuous: only {n} operations ran");
}

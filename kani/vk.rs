// Facade over the three ways a harness obtains its inputs (included as `crate::vk`):
//   cfg(kani)          symbolic values from Kani
//   cfg(verif_replay)  concrete bytes from the file named by $VERIF_REPLAY_FILE (one line per value, hex),
//                      i.e. the values Kani's concrete playback printed for a counterexample, or the
//                      values a search driver generated; when the file is exhausted, zeros.
// Harnesses call only vk::any / vk::assume / vk::cover / vk::any_bytes.

#[cfg(kani)]
pub fn any<T: kani::Arbitrary>() -> T {
    kani::any()
}

#[cfg(kani)]
pub fn assume(c: bool) {
    kani::assume(c)
}

// `vk::cover!(cond)`: a macro, so that every call site is its own cover property
#[cfg(kani)]
macro_rules! vk_cover {
    ($c:expr) => {
        kani::cover!($c)
    };
}
#[cfg(not(kani))]
macro_rules! vk_cover {
    ($c:expr) => {
        let _ = $c;
    };
}
pub(crate) use vk_cover as cover;

#[cfg(kani)]
pub fn any_bytes<const N: usize>() -> [u8; N] {
    kani::any()
}

#[cfg(not(kani))]
mod replay {
    extern crate std;
    use std::cell::RefCell;
    use std::collections::VecDeque;
    use std::vec::Vec;

    std::thread_local! {
        static STREAM: RefCell<Option<VecDeque<Vec<u8>>>> = const { RefCell::new(None) };
    }

    fn load() -> VecDeque<Vec<u8>> {
        let mut q = VecDeque::new();
        if let Ok(p) = std::env::var("VERIF_REPLAY_FILE") {
            if let Ok(text) = std::fs::read_to_string(p) {
                for line in text.lines() {
                    let line = line.trim();
                    if line.is_empty() || line.starts_with('#') {
                        continue;
                    }
                    let mut v = Vec::new();
                    let b = line.as_bytes();
                    let mut i = 0;
                    while i + 1 < b.len() {
                        let h = core::str::from_utf8(&b[i..i + 2]).unwrap();
                        v.push(u8::from_str_radix(h, 16).unwrap());
                        i += 2;
                    }
                    q.push_back(v);
                }
            }
        }
        q
    }

    pub fn next(n: usize) -> Vec<u8> {
        STREAM.with(|s| {
            let mut s = s.borrow_mut();
            if s.is_none() {
                *s = Some(load());
            }
            let mut v = s.as_mut().unwrap().pop_front().unwrap_or_default();
            v.resize(n, 0);
            v
        })
    }

    pub struct Rejected;
}

#[cfg(not(kani))]
pub trait VkAny: Sized {
    fn vk_any() -> Self;
}

#[cfg(not(kani))]
macro_rules! vk_int {
    ($($t:ty),*) => {$(
        impl VkAny for $t {
            fn vk_any() -> Self {
                let b = replay::next(core::mem::size_of::<$t>());
                let mut a = [0u8; core::mem::size_of::<$t>()];
                a.copy_from_slice(&b);
                <$t>::from_le_bytes(a)
            }
        }
    )*};
}

#[cfg(not(kani))]
vk_int!(u8, u16, u32, u64, u128, usize, i8, i16, i32, i64, i128, isize);

#[cfg(not(kani))]
impl VkAny for bool {
    fn vk_any() -> Self {
        replay::next(1)[0] & 1 == 1
    }
}

#[cfg(not(kani))]
impl VkAny for char {
    fn vk_any() -> Self {
        let v = u32::vk_any();
        char::from_u32(v).unwrap_or('\0')
    }
}

#[cfg(not(kani))]
impl<T: VkAny + Copy + Default, const N: usize> VkAny for [T; N] {
    fn vk_any() -> Self {
        let mut a = [T::default(); N];
        let mut i = 0;
        while i < N {
            a[i] = T::vk_any();
            i += 1;
        }
        a
    }
}

#[cfg(not(kani))]
pub fn any<T: VkAny>() -> T {
    T::vk_any()
}

#[cfg(not(kani))]
pub fn any_bytes<const N: usize>() -> [u8; N] {
    <[u8; N]>::vk_any()
}

/// In replay an unsatisfied assumption means the input does not belong to the harness's domain: the
/// run is abandoned *without* panicking (a panic would be read as a confirmed violation).
#[cfg(not(kani))]
pub fn assume(c: bool) {
    if !c {
        extern crate std;
        std::println!("VK-ASSUME-REJECTED");
        std::process::exit(0);
    }
}

// Appended to src/transactions.rs.
// C06-K1: freed-page records are keyed (transaction, page) lexicographically, so the range `..(free_until, 0)` used
//         by the reclaimer can never contain a record of a transaction >= free_until (the horizon cut-off).
// C06-K2: PageList / PageListMut record: len() and get(i) return what push_back stored; layout u16 length + 8-byte
//         page numbers.
// C11-R3: AllocatorStateKey codec and ordering (Region(i) sorts by i and before RegionTracker and TransactionId).
use super::*;
use crate::vk;

#[cfg_attr(kani, kani::proof)]
#[cfg_attr(verif_replay, test)]
fn c06_k1_horizon_cutoff() {
    let t: u64 = vk::any();
    let p: u64 = vk::any();
    let f: u64 = vk::any();
    let rec = TransactionIdWithPagination { transaction_id: t, pagination_id: p };
    let bound = TransactionIdWithPagination { transaction_id: f, pagination_id: 0 };
    let rb = <TransactionIdWithPagination as Value>::as_bytes(&rec);
    let bb = <TransactionIdWithPagination as Value>::as_bytes(&bound);
    let c = <TransactionIdWithPagination as Key>::compare(&rb, &bb);
    // strictly below the bound  <=>  freed by a transaction older than the horizon
    assert!((c == core::cmp::Ordering::Less) == (t < f));
    vk::cover!(t < f);
    vk::cover!(t == f && p > 0);
}

#[cfg_attr(kani, kani::proof)]
#[cfg_attr(verif_replay, test)]
fn c15_f_txn_with_pagination() {
    let a = TransactionIdWithPagination { transaction_id: vk::any(), pagination_id: vk::any() };
    let b = TransactionIdWithPagination { transaction_id: vk::any(), pagination_id: vk::any() };
    let ab = <TransactionIdWithPagination as Value>::as_bytes(&a);
    let bb = <TransactionIdWithPagination as Value>::as_bytes(&b);
    let want = (a.transaction_id, a.pagination_id).cmp(&(b.transaction_id, b.pagination_id));
    assert!(<TransactionIdWithPagination as Key>::compare(&ab, &bb) == want);
    let d = <TransactionIdWithPagination as Value>::from_bytes(&ab);
    assert!(d.transaction_id == a.transaction_id && d.pagination_id == a.pagination_id);
    // layout: two little-endian u64, transaction id first
    let i: usize = vk::any();
    vk::assume(i < 16);
    if i < 8 { assert!(ab[i] == a.transaction_id.to_le_bytes()[i]); } else { assert!(ab[i] == a.pagination_id.to_le_bytes()[i - 8]); }
}

fn any_page_number() -> PageNumber {
    let region: u32 = vk::any();
    let index: u32 = vk::any();
    let order: u8 = vk::any();
    vk::assume(region <= 0x000F_FFFF && order <= 20 && u64::from(index) < (1u64 << (20 - order)));
    PageNumber::new(region, index, order)
}

// bounded: up to 3 entries
#[cfg_attr(kani, kani::proof)]
#[cfg_attr(kani, kani::unwind(10))]
#[cfg_attr(verif_replay, test)]
fn c06_k2_page_list_bounded3() {
    let mut buf = [0xAAu8; 2 + 8 * 3 + 6];
    <PageList as MutInPlaceValue>::initialize(&mut buf);
    let n: usize = vk::any();
    vk::assume(n <= 3);
    let pages = [any_page_number(), any_page_number(), any_page_number()];
    {
        let m = <PageList as MutInPlaceValue>::from_bytes_mut(&mut buf);
        let mut i = 0;
        while i < n {
            m.push_back(pages[i]);
            i += 1;
        }
    }
    let l = <PageList as Value>::from_bytes(&buf);
    assert!(l.len() == n);
    let j: usize = vk::any();
    vk::assume(j < n);
    assert!(l.get(j) == pages[j]);
    // layout: u16 length, then 8 bytes per page number
    assert!(u16::from_le_bytes([buf[0], buf[1]]) as usize == n);
    let k: usize = vk::any();
    vk::assume(k < 8);
    assert!(buf[2 + 8 * j + k] == pages[j].to_le_bytes()[k]);
    assert!(PageList::required_bytes(n) == 2 + 8 * n);
    vk::cover!(n == 3);
}

#[cfg_attr(kani, kani::proof)]
#[cfg_attr(verif_replay, test)]
fn c11_r3_allocator_state_key() {
    let pick = |k: u8, r: u32| match k { 0 => AllocatorStateKey::Region(r), 1 => AllocatorStateKey::RegionTracker, _ => AllocatorStateKey::TransactionId };
    let ka: u8 = vk::any();
    let kb: u8 = vk::any();
    vk::assume(ka < 3 && kb < 3);
    let ra: u32 = vk::any();
    let rb: u32 = vk::any();
    let a = pick(ka, ra);
    let b = pick(kb, rb);
    let ab = <AllocatorStateKey as Value>::as_bytes(&a);
    let bb = <AllocatorStateKey as Value>::as_bytes(&b);
    assert!(<AllocatorStateKey as Value>::from_bytes(&ab) == a);
    let c = <AllocatorStateKey as Key>::compare(&ab, &bb);
    // order relied on by load_allocator_state's range scans: Region(i) by i, all regions before the tracker, the
    // tracker before the transaction id
    let rank = |k: u8, r: u32| -> (u8, u32) { (k, if k == 0 { r } else { 0 }) };
    assert!(c == rank(ka, ra).cmp(&rank(kb, rb)));
    // layout: tag byte 3/4/5, then little-endian region number (zero otherwise)
    assert!(ab[0] == 3 + ka);
    let i: usize = vk::any();
    vk::assume(i < 4);
    assert!(ab[1 + i] == if ka == 0 { ra.to_le_bytes()[i] } else { 0 });
}

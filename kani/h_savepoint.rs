// Appended to src/tree_store/page_store/savepoint.rs.  C07-K1: the persistent-savepoint record round trip and layout
// (version 1 B | savepoint id 8 B | transaction id 8 B | root not-null 1 B | root header 32 B).
// The not-null flag must be concrete per harness (a symbolic flag makes CBMC explore the error return that drops the
// tracker Arc, which does not terminate): one harness for Some(root), one for None.
use super::*;
use crate::tree_store::PageNumber;
use crate::vk;

fn stub_format(_: core::fmt::Arguments<'_>) -> alloc::string::String { alloc::string::String::new() }

fn any_root() -> BtreeHeader {
    let region: u32 = vk::any();
    let index: u32 = vk::any();
    let order: u8 = vk::any();
    vk::assume(region <= 0x000F_FFFF && order <= 20 && u64::from(index) < (1u64 << (20 - order)));
    BtreeHeader::new(PageNumber::new(region, index, order), vk::any(), vk::any())
}

fn roundtrip(root: Option<BtreeHeader>) {
    let tracker = Arc::new(TransactionTracker::new(TransactionId::new(0)));
    let sp = Savepoint {
        version: FILE_FORMAT_VERSION3,
        id: SavepointId(vk::any()),
        transaction_id: TransactionId::new(vk::any()),
        user_root: root,
        transaction_tracker: tracker.clone(),
        ephemeral: false,
    };
    let ser = SerializedSavepoint::from_savepoint(&sp);
    {
        let d = ser.data();
        assert!(d.len() == 1 + 8 + 8 + 1 + 32);
        assert!(d[0] == 3);
        let mut t = [0u8; 8];
        t.copy_from_slice(&d[1..9]);
        assert!(u64::from_le_bytes(t) == sp.id.0);
        t.copy_from_slice(&d[9..17]);
        assert!(u64::from_le_bytes(t) == sp.transaction_id.raw_id());
        match sp.user_root {
            Some(h) => {
                assert!(d[17] == 1);
                let mut b = [0u8; 32];
                b.copy_from_slice(&d[18..50]);
                assert!(b == h.to_le_bytes());
            }
            None => {
                assert!(d[17] == 0);
            }
        }
    }
    let Ok(back) = ser.to_savepoint(tracker.clone()) else { panic!("C07-K1: a written savepoint record was rejected") };
    assert!(back.id == sp.id);
    assert!(back.transaction_id == sp.transaction_id);
    assert!(back.user_root == sp.user_root);
    assert!(back.version == 3);
    assert!(!back.ephemeral);
    core::mem::forget(back);
    core::mem::forget(ser);
    core::mem::forget(sp);
    core::mem::forget(tracker);
}

#[cfg_attr(kani, kani::proof)]
#[cfg_attr(kani, kani::unwind(50))]
#[cfg_attr(kani, kani::stub(alloc::fmt::format, stub_format))]
#[cfg_attr(verif_replay, test)]
fn c07_k1_savepoint_roundtrip_some() {
    roundtrip(Some(any_root()));
}

#[cfg_attr(kani, kani::proof)]
#[cfg_attr(kani, kani::unwind(50))]
#[cfg_attr(kani, kani::stub(alloc::fmt::format, stub_format))]
#[cfg_attr(verif_replay, test)]
fn c07_k1_savepoint_roundtrip_none() {
    roundtrip(None);
}

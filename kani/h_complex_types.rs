// Appended to src/complex_types.rs.  C15 (variable-width tuples and Vec use this length prefix): for EVERY len <= u32::MAX,
// decode_varint_len(encode_varint_len(len)) == (len, bytes written), and the encoding has the documented three forms.
use super::*;
use crate::vk;

#[cfg_attr(kani, kani::proof)]
#[cfg_attr(kani, kani::unwind(8))]
#[cfg_attr(verif_replay, test)]
fn c15_f_varint_len_roundtrip() {
    let len32: u32 = vk::any();
    let len = len32 as usize;
    let mut out: Vec<u8> = Vec::with_capacity(8);
    encode_varint_len(len, &mut out);
    let n = out.len();
    assert!(n == if len < 254 { 1 } else if len <= 0xFFFF { 3 } else { 5 });
    // trailing bytes after the prefix must not matter
    out.push(vk::any());
    let (decoded, consumed) = decode_varint_len(&out);
    assert!(decoded == len);
    assert!(consumed == n);
    vk::cover!(n == 1);
    vk::cover!(n == 3);
    vk::cover!(n == 5);
}

// Appended to src/tree_store/btree_base.rs.
// C04-L1/L2 (bounded): the leaf page as a sorted array — writer, reader and binary search agree with the sequence of
//   pairs handed to the builder.  C04-T1 (complete): split / merge threshold arithmetic.
// C10-F2 (complete): BtreeHeader record = page(8) | checksum(16) | length(8).
// C10-P1 (bounded): leaf page layout per docs/design.md.  C10-P3 (bounded): the leaf checksum covers exactly the
//   prefix that ends at the last value, so every byte range an accessor can return lies inside the hashed prefix.
use super::*;
use crate::vk;

fn stub_format(_: core::fmt::Arguments<'_>) -> alloc::string::String { alloc::string::String::new() }

fn stub_xxh3(data: &[u8]) -> Checksum {
    let mut acc: u128 = 0x9E37_79B9_7F4A_7C15;
    let mut i = 0;
    while i < data.len() {
        acc = acc.rotate_left(5) ^ u128::from(data[i]);
        i += 1;
    }
    acc
}

struct TestPage { mem: [u8; 32] }
impl Page for TestPage {
    fn memory(&self) -> &[u8] { &self.mem }
    fn get_page_number(&self) -> PageNumber { PageNumber::new(0, 0, 0) }
}

#[cfg_attr(kani, kani::proof)]
#[cfg_attr(verif_replay, test)]
fn c10_f2_btree_header_layout() {
    let region: u32 = vk::any();
    let index: u32 = vk::any();
    let order: u8 = vk::any();
    vk::assume(region <= 0x000F_FFFF && order <= 20 && u64::from(index) < (1u64 << (20 - order)));
    let h = BtreeHeader::new(PageNumber::new(region, index, order), vk::any(), vk::any());
    let b = h.to_le_bytes();
    assert!(b.len() == 32);
    let i: usize = vk::any();
    vk::assume(i < 32);
    if i < 8 { assert!(b[i] == h.root.to_le_bytes()[i]); }
    else if i < 24 { assert!(b[i] == h.checksum.to_le_bytes()[i - 8]); }
    else { assert!(b[i] == h.length.to_le_bytes()[i - 24]); }
    assert!(BtreeHeader::from_le_bytes(b) == h);
}

// C04-T1: threshold arithmetic, all inputs that do not overflow
#[cfg_attr(kani, kani::proof)]
#[cfg_attr(verif_replay, test)]
fn c04_t1_leaf_thresholds() {
    let n: usize = vk::any();
    let bytes: usize = vk::any();
    let page_size: usize = vk::any();
    vk::assume(n <= 1 << 40 && bytes <= 1 << 40 && page_size >= 512 && page_size <= 1 << 40);
    let fk: Option<usize> = if vk::any() { Some(vk::any::<u16>() as usize) } else { None };
    let fv: Option<usize> = if vk::any() { Some(vk::any::<u16>() as usize) } else { None };
    let req = RawLeafBuilder::required_bytes(n, bytes, fk, fv);
    assert!(req == 4 + if fk.is_none() { 4 * n } else { 0 } + if fv.is_none() { 4 * n } else { 0 } + bytes);
    let split = leaf_split_required(n, bytes, fk, fv, page_size);
    let fits = leaf_fits_one_page(n, bytes, fk, fv, page_size);
    let merge = leaf_below_merge_threshold(n, bytes, fk, fv, page_size);
    assert!(fits == (req <= page_size && n <= 0xFFFF));
    assert!(split == (!fits && n > 1));
    // a leaf that "fits" can be built: RawLeafBuilder::new's u16::try_from cannot fail
    if fits { assert!(u16::try_from(n).is_ok()); }
    // no merge/split oscillation: a leaf below the merge threshold never needs a split, unless it exceeds the
    // 65535-pair cap (which page size alone cannot prevent)
    if merge && n <= 0xFFFF { assert!(!split); }
    vk::cover!(split);
    vk::cover!(merge);
}

// C04-L1 / C10-P1 / C10-P3, variable/variable widths, 2 pairs, keys and values up to 2 bytes
#[cfg_attr(kani, kani::proof)]
#[cfg_attr(kani, kani::unwind(34))]
#[cfg_attr(kani, kani::stub(alloc::fmt::format, stub_format))]
#[cfg_attr(kani, kani::stub(crate::tree_store::page_store::page_manager::xxh3_checksum, stub_xxh3))]
#[cfg_attr(verif_replay, test)]
fn c04_l1_leaf_roundtrip_var_var_2x2() {
    let kb: [[u8; 2]; 2] = [vk::any_bytes::<2>(), vk::any_bytes::<2>()];
    let vb: [[u8; 2]; 2] = [vk::any_bytes::<2>(), vk::any_bytes::<2>()];
    let kl0: usize = vk::any();
    let kl1: usize = vk::any();
    let vl0: usize = vk::any();
    let vl1: usize = vk::any();
    vk::assume(kl0 <= 2 && kl1 <= 2 && vl0 <= 2 && vl1 <= 2);
    let k0 = &kb[0][..kl0];
    let k1 = &kb[1][..kl1];
    let v0 = &vb[0][..vl0];
    let v1 = &vb[1][..vl1];
    let mut tp = TestPage { mem: [0u8; 32] };
    let key_bytes = kl0 + kl1;
    let required = RawLeafBuilder::required_bytes(2, key_bytes + vl0 + vl1, None, None);
    assert!(required <= 32);
    {
        let mut b = RawLeafBuilder::new(&mut tp.mem, 2, None, None, key_bytes);
        b.append(k0, v0);
        b.append(k1, v1);
    }
    // reader returns exactly what was written
    {
        let acc = LeafAccessor::new(&tp.mem, None, None);
        assert!(acc.num_pairs() == 2);
        let e0 = acc.entry(0).unwrap();
        let e1 = acc.entry(1).unwrap();
        assert!(e0.key() == k0 && e0.value() == v0);
        assert!(e1.key() == k1 && e1.value() == v1);
        assert!(acc.total_length() == required);
        assert!(acc.entry(2).is_none());
    }
    // layout per docs/design.md: type 1, reserved, u16 count, key_end[2], value_end[2], keys, values
    let p = &tp.mem;
    assert!(p[0] == 1);
    assert!(u16::from_le_bytes([p[2], p[3]]) == 2);
    let rd = |o: usize| u32::from_le_bytes([p[o], p[o + 1], p[o + 2], p[o + 3]]) as usize;
    assert!(rd(4) == 20 + kl0 && rd(8) == 20 + kl0 + kl1);
    assert!(rd(12) == 20 + key_bytes + vl0 && rd(16) == required);
    // the checksum covers exactly page[..end of last value]
    let Ok(c) = leaf_checksum(&tp, None, None) else { panic!("C10-P3: checksum refused a well-formed leaf") };
    assert!(c == xxh3_checksum(&tp.mem[..required]));
}

// fixed/fixed widths (1-byte keys and values), 3 pairs
#[cfg_attr(kani, kani::proof)]
#[cfg_attr(kani, kani::unwind(20))]
#[cfg_attr(kani, kani::stub(alloc::fmt::format, stub_format))]
#[cfg_attr(kani, kani::stub(crate::tree_store::page_store::page_manager::xxh3_checksum, stub_xxh3))]
#[cfg_attr(verif_replay, test)]
fn c04_l1_leaf_roundtrip_fixed_fixed_3() {
    let k: [u8; 3] = vk::any_bytes::<3>();
    let v: [u8; 3] = vk::any_bytes::<3>();
    let mut tp = TestPage { mem: [0u8; 32] };
    let required = RawLeafBuilder::required_bytes(3, 6, Some(1), Some(1));
    assert!(required == 10);
    {
        let mut b = RawLeafBuilder::new(&mut tp.mem[..16], 3, Some(1), Some(1), 3);
        b.append(&k[0..1], &v[0..1]);
        b.append(&k[1..2], &v[1..2]);
        b.append(&k[2..3], &v[2..3]);
    }
    let acc = LeafAccessor::new(&tp.mem[..16], Some(1), Some(1));
    assert!(acc.num_pairs() == 3);
    let i: usize = vk::any();
    vk::assume(i < 3);
    let e = acc.entry(i).unwrap();
    assert!(e.key() == &k[i..i + 1] && e.value() == &v[i..i + 1]);
    assert!(acc.entry(3).is_none());
    assert!(acc.total_length() == required);
    // layout: no offset arrays for fixed widths
    assert!(tp.mem[0] == 1 && u16::from_le_bytes([tp.mem[2], tp.mem[3]]) == 3);
    assert!(tp.mem[4 + i] == k[i] && tp.mem[7 + i] == v[i]);
}

// C04-L2: binary search on strictly increasing u8 keys returns (number of keys < q, q present) for EVERY query —
// for 3 one-byte keys this is every possible leaf content of that shape.
#[cfg_attr(kani, kani::proof)]
#[cfg_attr(kani, kani::unwind(20))]
#[cfg_attr(verif_replay, test)]
fn c04_l2_leaf_position_fixed_3() {
    let k: [u8; 3] = vk::any_bytes::<3>();
    vk::assume(k[0] < k[1] && k[1] < k[2]);
    let v: [u8; 3] = vk::any_bytes::<3>();
    let mut page = [0u8; 16];
    {
        let mut b = RawLeafBuilder::new(&mut page, 3, Some(1), Some(1), 3);
        b.append(&k[0..1], &v[0..1]);
        b.append(&k[1..2], &v[1..2]);
        b.append(&k[2..3], &v[2..3]);
    }
    let acc = LeafAccessor::new(&page, Some(1), Some(1));
    let q: u8 = vk::any();
    let (pos, found) = acc.position::<u8>(&[q]);
    let below = usize::from(k[0] < q) + usize::from(k[1] < q) + usize::from(k[2] < q);
    assert!(pos == below);
    assert!(found == (q == k[0] || q == k[1] || q == k[2]));
    vk::cover!(found);
    vk::cover!(!found && pos == 3);
}

// Appended to src/tree_store/multimap_btree.rs.  C09-K1: the per-key collection record in its subtree form.
use super::*;
use crate::tree_store::btree_base::RawLeafBuilder;
use crate::vk;

#[cfg_attr(kani, kani::proof)]
#[cfg_attr(kani, kani::unwind(40))]
#[cfg_attr(verif_replay, test)]
fn c09_k1_subtree_collection_roundtrip() {
    let region: u32 = vk::any();
    let index: u32 = vk::any();
    let order: u8 = vk::any();
    vk::assume(region <= 0x000F_FFFF && order <= 20 && u64::from(index) < (1u64 << (20 - order)));
    let h = BtreeHeader::new(PageNumber::new(region, index, order), vk::any(), vk::any());
    let bytes = DynamicCollection::<u64>::make_subtree_data(h);
    let c = DynamicCollection::<u64>::new(&bytes);
    assert!(matches!(c.collection_type(), SubtreeV2));
    assert!(c.as_subtree() == h);
    assert!(c.get_num_values() == h.length);
}

// C09-K2 (bounded: up to 3 one-byte values): the inline form wraps a leaf page; the tag byte is LEAF, the payload is
// returned unchanged and the value count is the leaf's pair count.
#[cfg_attr(kani, kani::proof)]
#[cfg_attr(kani, kani::unwind(40))]
#[cfg_attr(verif_replay, test)]
fn c09_k2_inline_collection_bounded3() {
    let n: usize = vk::any();
    vk::assume(1 <= n && n <= 3);
    let vals: [u8; 3] = vk::any_bytes::<3>();
    let mut page = [0u8; 8];
    let need = RawLeafBuilder::required_bytes(n, n, Some(1), Some(0));
    assert!(need <= 8);
    {
        let mut b = RawLeafBuilder::new(&mut page[..need], n, Some(1), Some(0), n);
        let mut i = 0;
        while i < n {
            b.append(&vals[i..i + 1], &[]);
            i += 1;
        }
    }
    let bytes = DynamicCollection::<u8>::make_inline_data(&page[..need]);
    assert!(bytes.len() == need + 1);
    let c = DynamicCollection::<u8>::new(&bytes);
    assert!(matches!(c.collection_type(), Inline));
    assert!(c.as_inline() == &page[..need]);
    assert!(c.get_num_values() == n as u64);
    vk::cover!(n == 3);
}

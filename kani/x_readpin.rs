// Appended to src/db.rs.  BOUNDED, exhaustive NATIVE check of the contract of the REAL Database::begin_read (TransactionGuard::
// allocate_read -> TransactionTracker::register_read_transaction, a BTreeMap entry-API body, plus ReadTransaction::new) on a REAL
// in-memory database: neither Verus nor CBMC can construct a TransactionalMemory.
//
// Contract (C02), checked after every step of every history:
//   begin_read()        what the new transaction reads is the contents of the LAST COMMITTED transaction at that moment - not an earlier,
//                       not a later one - and a pin no newer than that transaction exists from then on;
//   afterwards          whatever is committed (durably or not), aborted, or whichever other readers are opened and dropped, every live
//                       reader keeps returning the contents of its own snapshot;
//   the tracker         never reports an oldest pin newer than the snapshot of a live reader, reports a user read reference exactly
//                       while a reader is live (pending non-durable commits hold internal pins of their own, on older transactions).
// Bound: every history of at most DEPTH steps over {durable commit, non-durable commit, aborted write, open a reader, drop the oldest
// reader, drop the newest reader}; one table, one key whose value is the number of commits so far.
use super::*;
extern crate std;
use crate::backends::InMemoryBackend;
use crate::{Durability, ReadableDatabase, ReadableTable, TableDefinition};
use std::vec::Vec as V;

const T: TableDefinition<u64, u64> = TableDefinition::new("t");

#[derive(Clone, Copy, Debug)]
enum Step {
    CommitDurable,
    CommitNonDurable,
    AbortedWrite,
    OpenReader,
    DropOldest,
    DropNewest,
}

struct Reader {
    txn: ReadTransaction,
    pinned: TransactionId,
    sees: u64,
}

fn read_value(txn: &ReadTransaction) -> u64 {
    match txn.open_table(T) {
        Ok(t) => t.get(0u64).unwrap().map(|g| g.value()).unwrap_or(0),
        Err(_) => 0, // the table does not exist yet: nothing was committed
    }
}

fn run(history: &[Step]) -> bool {
    let db = Database::builder().create_with_backend(InMemoryBackend::new()).unwrap();
    let mut committed: u64 = 0;
    let mut readers: V<Reader> = V::new();
    for (n, step) in history.iter().enumerate() {
        match step {
            Step::CommitDurable | Step::CommitNonDurable => {
                let mut w = db.begin_write().unwrap();
                if matches!(step, Step::CommitNonDurable) {
                    w.set_durability(Durability::None).unwrap();
                }
                {
                    let mut t = w.open_table(T).unwrap();
                    t.insert(0u64, committed + 1).unwrap();
                }
                w.commit().unwrap();
                committed += 1;
            }
            Step::AbortedWrite => {
                let w = db.begin_write().unwrap();
                {
                    let mut t = w.open_table(T).unwrap();
                    t.insert(0u64, 1_000_000u64).unwrap();
                }
                w.abort().unwrap();
            }
            Step::OpenReader => {
                let last = db.mem.get_last_committed_transaction_id().unwrap();
                let txn = db.begin_read().unwrap();
                // the new pin is not older than any other (internal pins of pending non-durable commits sit on their durable ancestor, which is
                // never newer), and something is pinned now
                let oldest = db.transaction_tracker.oldest_live_read_transaction();
                assert!(oldest.is_some() && oldest.unwrap() <= last, "history {history:?} step {n}: oldest pin {oldest:?} after begin_read, last committed is {last:?}");
                let sees = read_value(&txn);
                assert!(sees == committed, "history {history:?} step {n}: a new reader sees {sees}, the last commit wrote {committed}");
                readers.push(Reader { txn, pinned: last, sees });
            }
            Step::DropOldest => {
                if readers.is_empty() {
                    return false;
                }
                let r = readers.remove(0);
                drop(r.txn);
            }
            Step::DropNewest => {
                if readers.is_empty() {
                    return false;
                }
                let r = readers.pop().unwrap();
                drop(r.txn);
            }
        }
        // every live reader still returns its own snapshot
        for r in &readers {
            let now = read_value(&r.txn);
            assert!(now == r.sees, "history {history:?} after step {n}: a reader pinned at {:?} saw {} and now sees {now}", r.pinned, r.sees);
        }
        // the tracker reports the smallest pinned id (pending non-durable commits pin their durable ancestor, which is never newer)
        let oldest = db.transaction_tracker.oldest_live_read_transaction();
        match readers.iter().map(|r| r.pinned).min() {
            Some(m) => assert!(oldest.is_some() && oldest.unwrap() <= m, "history {history:?} after step {n}: oldest pin {oldest:?} but a reader is pinned at {m:?}"),
            None => assert!(!db.transaction_tracker.any_user_read_reference_exists(), "history {history:?} after step {n}: no reader is live but a user read reference exists"),
        }
        if !readers.is_empty() {
            assert!(db.transaction_tracker.any_user_read_reference_exists(), "history {history:?} after step {n}: a reader is live but no user read reference exists");
        }
    }
    true
}

fn explore(depth: usize) -> u64 {
    const STEPS: [Step; 6] = [Step::CommitDurable, Step::CommitNonDurable, Step::AbortedWrite, Step::OpenReader, Step::DropOldest, Step::DropNewest];
    let mut n = 0u64;
    let mut h: V<Step> = V::new();
    fn rec(h: &mut V<Step>, depth: usize, n: &mut u64) {
        if h.len() == depth {
            return;
        }
        for s in STEPS {
            h.push(s);
            if run(h) {
                *n += 1;
                rec(h, depth, n);
            }
            h.pop();
        }
    }
    rec(&mut h, depth, &mut n);
    n
}

#[cfg_attr(verif_replay, test)]
fn xb_begin_read_contract_depth4() {
    let mut n = 0;
    for d in 1..=4 {
        n = explore(d); // shortest failing history first
    }
    assert!(n > 500, "vacuous: only {n} histories ran");
}

#[cfg_attr(verif_replay, test)]
fn xb_begin_read_contract_depth6() {
    let n = explore(6);
    assert!(n > 10_000, "vacuous: only {n} histories ran");
}

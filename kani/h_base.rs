// Appended to src/tree_store/page_store/base.rs.  C10-F1: page number packing (index 20 bits, region 20 bits,
// 19 reserved bits, order in the top 5 bits); the reader ignores reserved bits and inverts the writer.
use super::*;
use crate::vk;

#[cfg_attr(kani, kani::proof)]
#[cfg_attr(verif_replay, test)]
fn c10_f1_page_number_layout() {
    let region: u32 = vk::any();
    let index: u32 = vk::any();
    let order: u8 = vk::any();
    vk::assume(region <= 0x000F_FFFF);
    vk::assume(order <= 20);
    vk::assume(u64::from(index) < (1u64 << (20 - order)));
    let p = PageNumber { region, page_index: index, page_order: order };
    let b = p.to_le_bytes();
    let w = u64::from_le_bytes(b);
    assert!(w & 0xF_FFFF == u64::from(index));
    assert!((w >> 20) & 0xF_FFFF == u64::from(region));
    assert!((w >> 40) & 0x7_FFFF == 0); // reserved bits written as zero
    assert!(w >> 59 == u64::from(order));
    let q = PageNumber::from_le_bytes(b);
    assert!(p == q);
    // reserved bits, and index bits above `20 - order`, are ignored on read
    let junk: u64 = vk::any();
    let reserved_mask: u64 = (0x7_FFFFu64 << 40) | ((0xF_FFFFu64 >> (20 - order)) << (20 - order)) & 0xF_FFFF;
    let w2 = w | (junk & reserved_mask);
    let q2 = PageNumber::from_le_bytes(w2.to_le_bytes());
    assert!(q2 == p);
}

// Appended to src/transaction_tracker.rs.  BOUNDED, exhaustive NATIVE check of the contracts of the REAL TransactionTracker functions
// (BTreeMap / BTreeSet / entry-API bodies: outside Verus' and CBMC's reach) against a ghost model kept beside it.
//
// Ghost model: pins[T] = number of references held on transaction T (readers + savepoints + pending non-durable commits whose durable
// ancestor is T); savepoints = id -> (transaction, persistent); pending = non-durable id -> ancestor; unprocessed = set of ids.
// Per-function contract (checked after EVERY call, with the full frame: everything not named is unchanged):
//   register_persistent_savepoint(s)      pins[s.txn] += 1; savepoints[s.id] = (s.txn, persistent)
//   register_non_durable_commit(i, a, f)  requires i not pending; pins[a] += 1; pending[i] = a; f ==> unprocessed += i
//   deallocate_read_transaction(t)        requires pins[t] > 0; pins[t] -= 1
//   deallocate_savepoint(s, t)            requires pins[t] > 0; savepoints -= s; pins[t] -= 1
//   allocate_savepoint(t)                 returns a fresh id greater than every id handed out before; savepoints[id] = (t, ephemeral)
//   mark_savepoint_persistent(s)          requires s valid; savepoints[s].persistent = true
//   invalidate_savepoints(S)              savepoints -= S; pins unchanged
//   clear_pending_non_durable_commits()   requires pins[a] >= #pending with ancestor a; for every pending (i -> a): pins[a] -= 1; pending = {}
//   mark_non_durable_freed_pages_processed(S)   unprocessed -= S
// Observers (compared with the model after every call): the live_read_transactions map itself (== {t -> pins[t] | pins[t] > 0}),
// oldest_live_read_transaction, oldest_savepoint_excluding(every subset), list_savepoints_after(every id), is_valid_savepoint,
// any_savepoint_exists, any_persistent_savepoint_exists, any_ephemeral_savepoint_exists, any_user_read_reference_exists,
// oldest_unprocessed_non_durable_commit, is_unprocessed_non_durable_commit, oldest_live_read_nondurable_transaction.
// Bound: every sequence of at most DEPTH calls over transaction ids {1,2,3}, stored savepoint ids {1,2,3}, allocated ids 4...
use super::*;
extern crate std;
use crate::tree_store::SerializedSavepoint;
use std::collections::{BTreeMap as M, BTreeSet as S};
use std::vec::Vec as V;

#[derive(Clone, Default)]
struct Model {
    pins: M<u64, u64>,
    sps: M<u64, (u64, bool)>,
    pending: M<u64, u64>,
    unprocessed: S<u64>,
    next_sp: u64,
}

#[derive(Clone, Copy, Debug)]
enum Op {
    RegPersistent(u64, u64),
    RegNonDurable(u64, u64, bool),
    DeallocRead(u64),
    DeallocSavepoint(u64, u64),
    AllocSavepoint(u64),
    MarkPersistent(u64),
    Invalidate(u8),
    ClearPending,
    MarkProcessed(u8),
}

fn subset(mask: u8) -> V<u64> {
    (1u64..=3).filter(|i| mask & (1 << (i - 1)) != 0).collect()
}

fn all_ops() -> V<Op> {
    let mut v = V::new();
    for s in 1..=3 {
        for t in 1..=3 {
            v.push(Op::RegPersistent(s, t));
            v.push(Op::DeallocSavepoint(s, t));
        }
    }
    for i in 1..=3 {
        for a in 1..=3 {
            v.push(Op::RegNonDurable(i, a, false));
            v.push(Op::RegNonDurable(i, a, true));
        }
    }
    for t in 1..=3 {
        v.push(Op::DeallocRead(t));
        v.push(Op::AllocSavepoint(t));
        v.push(Op::MarkPersistent(t));
        v.push(Op::DeallocSavepoint(4, t));
    }
    v.push(Op::MarkPersistent(4));
    for m in 1u8..8 {
        v.push(Op::Invalidate(m));
        v.push(Op::MarkProcessed(m));
    }
    v.push(Op::ClearPending);
    v
}

fn mk_savepoint(tracker: &Arc<TransactionTracker>, sid: u64, tid: u64) -> Savepoint {
    let mut b = V::new();
    b.push(3u8);
    b.extend(sid.to_le_bytes());
    b.extend(tid.to_le_bytes());
    b.push(0);
    b.extend([0u8; 32]);
    <SerializedSavepoint as Value>::from_bytes(&b).to_savepoint(tracker.clone()).unwrap()
}

// precondition of the call in the model state (calls whose precondition does not hold are not made: the real functions panic there)
fn pre(m: &Model, op: Op) -> bool {
    match op {
        Op::RegNonDurable(i, _, _) => !m.pending.contains_key(&i),
        Op::DeallocRead(t) | Op::DeallocSavepoint(_, t) => m.pins.get(&t).copied().unwrap_or(0) > 0,
        Op::MarkPersistent(s) => m.sps.contains_key(&s),
        // every pending commit still holds the reference on its ancestor that it took when it was registered
        Op::ClearPending => m.pending.values().all(|a| m.pins.get(a).copied().unwrap_or(0) >= m.pending.values().filter(|b| *b == a).count() as u64),
        _ => true,
    }
}

fn dec(m: &mut Model, t: u64) {
    let c = m.pins.get_mut(&t).unwrap();
    *c -= 1;
    if *c == 0 {
        m.pins.remove(&t);
    }
}

fn apply(tr: &Arc<TransactionTracker>, m: &mut Model, op: Op, ctx: &dyn Fn() -> std::string::String) {
    match op {
        Op::RegPersistent(s, t) => {
            let sp = mk_savepoint(tr, s, t);
            tr.register_persistent_savepoint(&sp);
            *m.pins.entry(t).or_insert(0) += 1;
            m.sps.insert(s, (t, true));
        }
        Op::RegNonDurable(i, a, f) => {
            tr.register_non_durable_commit(TransactionId::new(i), TransactionId::new(a), f);
            *m.pins.entry(a).or_insert(0) += 1;
            m.pending.insert(i, a);
            if f {
                m.unprocessed.insert(i);
            }
        }
        Op::DeallocRead(t) => {
            tr.deallocate_read_transaction(TransactionId::new(t));
            dec(m, t);
        }
        Op::DeallocSavepoint(s, t) => {
            tr.deallocate_savepoint(SavepointId(s), TransactionId::new(t));
            m.sps.remove(&s);
            dec(m, t);
        }
        Op::AllocSavepoint(t) => {
            let id = tr.allocate_savepoint(TransactionId::new(t));
            assert!(id.0 > m.next_sp, "allocate_savepoint: id {} not above every earlier id {} [{}]", id.0, m.next_sp, ctx());
            assert!(!m.sps.contains_key(&id.0), "allocate_savepoint: id {} already valid [{}]", id.0, ctx());
            m.next_sp = id.0;
            m.sps.insert(id.0, (t, false));
        }
        Op::MarkPersistent(s) => {
            tr.mark_savepoint_persistent(SavepointId(s));
            m.sps.get_mut(&s).unwrap().1 = true;
        }
        Op::Invalidate(mask) => {
            tr.invalidate_savepoints(subset(mask).into_iter().map(SavepointId));
            for s in subset(mask) {
                m.sps.remove(&s);
            }
        }
        Op::ClearPending => {
            tr.clear_pending_non_durable_commits();
            let p = core::mem::take(&mut m.pending);
            for (_, a) in p {
                dec(m, a);
            }
        }
        Op::MarkProcessed(mask) => {
            tr.mark_non_durable_freed_pages_processed(subset(mask).into_iter().map(TransactionId::new));
            for s in subset(mask) {
                m.unprocessed.remove(&s);
            }
        }
    }
}

fn observe(tr: &Arc<TransactionTracker>, m: &Model, ctx: &dyn Fn() -> std::string::String) {
    {
        let st = tr.state.lock().unwrap();
        let real: M<u64, u64> = st.live_read_transactions.iter().map(|(k, v)| (k.raw_id(), *v)).collect();
        assert!(real == m.pins, "pin counts: tracker has {:?}, contract says {:?} [{}]", real, m.pins, ctx());
        let real_sp: M<u64, u64> = st.valid_savepoints.iter().map(|(k, v)| (k.0, v.raw_id())).collect();
        let model_sp: M<u64, u64> = m.sps.iter().map(|(k, v)| (*k, v.0)).collect();
        assert!(real_sp == model_sp, "valid savepoints: tracker has {:?}, contract says {:?} [{}]", real_sp, model_sp, ctx());
        let real_p: S<u64> = st.persistent_savepoints.iter().map(|k| k.0).collect();
        let model_p: S<u64> = m.sps.iter().filter(|(_, v)| v.1).map(|(k, _)| *k).collect();
        assert!(real_p == model_p, "persistent savepoints: tracker has {:?}, contract says {:?} [{}]", real_p, model_p, ctx());
        let real_nd: M<u64, u64> = st.pending_non_durable_commits.iter().map(|(k, v)| (k.raw_id(), v.raw_id())).collect();
        assert!(real_nd == m.pending, "pending non-durable commits: {:?} vs {:?} [{}]", real_nd, m.pending, ctx());
    }
    let oldest = m.pins.keys().next().copied();
    assert!(tr.oldest_live_read_transaction().map(TransactionId::raw_id) == oldest, "oldest_live_read_transaction != {:?} [{}]", oldest, ctx());
    for mask in 0u8..8 {
        let ex: S<SavepointId> = subset(mask).into_iter().map(SavepointId).collect();
        let want = m.sps.iter().find(|(k, _)| !ex.contains(&SavepointId(**k))).map(|(k, v)| (*k, v.0));
        let got = tr.oldest_savepoint_excluding(&ex).map(|(a, b)| (a.0, b.raw_id()));
        assert!(got == want, "oldest_savepoint_excluding({:?}) = {:?}, contract says {:?} [{}]", subset(mask), got, want, ctx());
    }
    for id in 0u64..=7 {
        let want: V<u64> = m.sps.keys().copied().filter(|k| *k > id).collect();
        let got: V<u64> = tr.list_savepoints_after(SavepointId(id)).into_iter().map(|s| s.0).collect();
        assert!(got == want, "list_savepoints_after({id}) = {:?}, contract says {:?} [{}]", got, want, ctx());
        assert!(tr.is_valid_savepoint(SavepointId(id)) == m.sps.contains_key(&id), "is_valid_savepoint({id}) [{}]", ctx());
        assert!(tr.is_unprocessed_non_durable_commit(TransactionId::new(id)) == m.unprocessed.contains(&id), "is_unprocessed_non_durable_commit({id}) [{}]", ctx());
    }
    assert!(tr.any_savepoint_exists() == !m.sps.is_empty(), "any_savepoint_exists [{}]", ctx());
    assert!(tr.any_persistent_savepoint_exists() == m.sps.values().any(|v| v.1), "any_persistent_savepoint_exists [{}]", ctx());
    assert!(tr.any_ephemeral_savepoint_exists() == m.sps.values().any(|v| !v.1), "any_ephemeral_savepoint_exists [{}]", ctx());
    let user = m.pins.iter().any(|(t, c)| *c > m.pending.values().filter(|a| *a == t).count() as u64);
    assert!(tr.any_user_read_reference_exists() == user, "any_user_read_reference_exists != {user} [{}]", ctx());
    assert!(tr.oldest_unprocessed_non_durable_commit().map(TransactionId::raw_id) == m.unprocessed.iter().next().copied(),
        "oldest_unprocessed_non_durable_commit [{}]", ctx());
    let nd = m.pins.keys().copied().find(|t| m.pending.contains_key(t));
    assert!(tr.oldest_live_read_nondurable_transaction().map(TransactionId::raw_id) == nd, "oldest_live_read_nondurable_transaction != {:?} [{}]", nd, ctx());
}

fn run_seq(seq: &[Op]) -> bool {
    let tr = Arc::new(TransactionTracker::new(TransactionId::new(1)));
    let mut m = Model::default();
    // as Database::new does after loading the persistent savepoints: ids handed out from here on lie above the stored ones (1..=3)
    tr.restore_savepoint_counter_state(SavepointId(3));
    m.next_sp = 3;
    for (k, op) in seq.iter().enumerate() {
        if !pre(&m, *op) {
            return false;
        }
        let ctx = || std::format!("after call {} of {:?}", k + 1, seq);
        apply(&tr, &mut m, *op, &ctx);
        // only the state after the last call is new: the prefixes were observed when they were the whole sequence
        if k + 1 == seq.len() {
            observe(&tr, &m, &ctx);
        }
    }
    true
}

fn explore(depth: usize) -> u64 {
    let ops = all_ops();
    let mut n = 0u64;
    let mut seq: V<Op> = V::new();
    fn rec(ops: &[Op], seq: &mut V<Op>, depth: usize, n: &mut u64) {
        if seq.len() == depth {
            return;
        }
        for op in ops {
            seq.push(*op);
            if run_seq(seq) {
                *n += 1;
                rec(ops, seq, depth, n);
            }
            seq.pop();
        }
    }
    rec(&ops, &mut seq, depth, &mut n);
    n
}

#[cfg_attr(verif_replay, test)]
fn xb_tracker_contracts_depth3() {
    let mut n = 0;
    for d in 1..=3 { n = explore(d); } // shortest failing sequence first
    assert!(n > 50_000, "vacuous: only {n} call sequences ran");
}

#[cfg_attr(verif_replay, test)]
fn xb_tracker_contracts_depth4() {
    let n = explore(4);
    assert!(n > 2_000_000, "vacuous: only {n} call sequences ran");
}

// Appended to src/tree_store/page_store/buddy_allocator.rs.  BOUNDED, exhaustive NATIVE checks (plain `cargo test` on the real code,
// no symbolic execution) of contracts that the Verus unit `alloc` ASSUMES or leaves out because Verus cannot read the bodies
// (iterator adapters, iter_mut loops, byte serialisation): BuddyAllocator::resize, highest_free_order, to_vec/from_bytes.
// They run with debug assertions on, so redb's own debug_check_consistency (I1 and I2) is checked after every resize.
// A failure panics with the inputs in the message; these obligations are labelled `bounded` and never counted as proved.
use super::*;
extern crate std;
use std::vec::Vec as V;

fn page_free(a: &BuddyAllocator, p: u32) -> bool {
    let mut q = p;
    let mut o = 0u8;
    while o <= a.max_order {
        let bm = a.get_order_free(o);
        if q < bm.len() && !bm.get(q) {
            return true;
        }
        q /= 2;
        o += 1;
    }
    false
}

fn free_map(a: &BuddyAllocator) -> V<bool> {
    (0..a.len()).map(|p| page_free(a, p)).collect()
}

// every state reachable from new(n, cap) by at most two allocations (orders 0..=3) and at most one free of the first block
fn for_each_state(cap: u32, mut f: impl FnMut(&dyn Fn() -> BuddyAllocator, std::string::String)) {
    for n in 1..=cap {
        for a1 in 0u8..=4 {
            for a2 in 0u8..=4 {
                for fr in 0u8..=1 {
                    let build = move || {
                        let mut a = BuddyAllocator::new(n, cap);
                        let mut first = None;
                        if a1 < 4 { first = a.alloc(a1).map(|p| (p, a1)); }
                        if a2 < 4 { let _ = a.alloc_lowest(a2); }
                        if fr == 1 { if let Some((p, o)) = first { a.free(p, o); } }
                        a
                    };
                    f(&build, std::format!("cap={cap} n={n} alloc({a1}) alloc_lowest({a2}) free_first={fr}"));
                }
            }
        }
    }
}

const CAPS: [u32; 6] = [1, 2, 7, 16, 33, 64];

#[cfg_attr(verif_replay, test)]
fn x14_resize_contract() {
    let mut cases = 0u64;
    for cap in CAPS {
        for_each_state(cap, |build, desc| {
            for new_size in 1..=cap {
                let mut a = build();
                let before = free_map(&a);
                let old_len = a.len();
                // precondition of the assumed contract: shrinking only over free trailing pages
                if new_size < old_len && !(new_size..old_len).all(|p| before[p as usize]) { continue; }
                let mo = a.get_max_order();
                a.resize(new_size);
                cases += 1;
                assert!(a.len() == new_size && a.get_max_order() == mo, "resize: len/max_order wrong: {desc} new_size={new_size}");
                let after = free_map(&a);
                for p in 0..new_size {
                    if p < old_len {
                        assert!(after[p as usize] == before[p as usize], "resize changed the state of page {p}: {desc} new_size={new_size}");
                    } else {
                        assert!(after[p as usize], "resize: added page {p} is not free: {desc} new_size={new_size}");
                    }
                }
                // shrink: every free block afterwards lies under a block that was free before (orders never grow)
                if new_size <= old_len {
                    let hb = { let b = build(); b.highest_free_order() };
                    let ha = a.highest_free_order();
                    assert!(ha <= hb, "resize(shrink) created a larger free block: {desc} new_size={new_size}");
                }
            }
        });
    }
    assert!(cases > 10_000);
}

#[cfg_attr(verif_replay, test)]
fn x14_highest_free_order_contract() {
    for cap in CAPS {
        for_each_state(cap, |build, desc| {
            let a = build();
            let r = a.highest_free_order();
            let mut want = None;
            for o in 0..=a.get_max_order() {
                if a.get_order_free(o).has_unset() { want = Some(o); }
            }
            assert!(r == want, "highest_free_order {r:?} != {want:?}: {desc}");
        });
    }
}

// C14 "saving and reloading the allocator preserves all of this"
#[cfg_attr(verif_replay, test)]
fn x14_serialize_roundtrip() {
    for cap in CAPS {
        for_each_state(cap, |build, desc| {
            let a = build();
            let b = BuddyAllocator::from_bytes(&a.to_vec());
            assert!(b.len() == a.len() && b.get_max_order() == a.get_max_order(), "round trip lost len/max_order: {desc}");
            for o in 0..=a.get_max_order() {
                let (x, y) = (a.get_order_free(o), b.get_order_free(o));
                assert!(x.len() == y.len(), "round trip changed the length of order {o}: {desc}");
                for i in 0..x.len() { assert!(x.get(i) == y.get(i), "round trip changed bit {i} of order {o}: {desc}"); }
            }
            // and the reloaded allocator behaves the same: the next allocation of every order returns the same block
            for o in 0..=3u8 {
                let (mut a2, mut b2) = (build(), BuddyAllocator::from_bytes(&build().to_vec()));
                assert!(a2.alloc(o) == b2.alloc(o), "reloaded allocator allocates differently at order {o}: {desc}");
            }
            assert!(a.xxh3_hash() == b.xxh3_hash(), "round trip changed the allocator hash: {desc}");
        });
    }
}

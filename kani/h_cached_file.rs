// Harnesses appended (as a child module) to src/tree_store/page_store/cached_file.rs in the per-run scratch copy.
// C20-L1 / C08-K1: the I/O-failure latch of CheckedBackend is inductive; no backend call after a failure.
// C20-L2 / C08-K2: close() latches first, reaches the backend once; Drop closes iff close() was not called.
use super::*;
use crate::vk;
use core::sync::atomic::AtomicU32;

// Every backend call is counted; each result is nondeterministic.  Allocation-free, never formats.
#[derive(Debug)]
struct Mock {
    calls: Arc<AtomicU32>,
    closes: Arc<AtomicU32>,
}

impl Mock {
    fn res<T>(&self, v: T) -> core::result::Result<T, crate::io::Error> {
        self.calls.fetch_add(1, Ordering::Relaxed);
        if vk::any() {
            Ok(v)
        } else {
            Err(crate::io::Error::from(std::io::ErrorKind::Other))
        }
    }
}

impl StorageBackend for Mock {
    fn len(&self) -> core::result::Result<u64, crate::io::Error> { self.res(vk::any()) }
    fn read(&self, _o: u64, _out: &mut [u8]) -> core::result::Result<(), crate::io::Error> { self.res(()) }
    fn set_len(&self, _l: u64) -> core::result::Result<(), crate::io::Error> { self.res(()) }
    fn sync_data(&self) -> core::result::Result<(), crate::io::Error> { self.res(()) }
    fn write(&self, _o: u64, _d: &[u8]) -> core::result::Result<(), crate::io::Error> { self.res(()) }
    fn close(&self) -> core::result::Result<(), crate::io::Error> {
        self.closes.fetch_add(1, Ordering::Relaxed);
        self.res(())
    }
}

fn do_op(b: &CheckedBackend, op: u8) -> (bool, bool, bool) {
    // returns (ok, is PreviousIo, is DatabaseClosed)
    let mut buf = [0u8; 4];
    let r: Result<()> = match op {
        0 => b.len().map(|_| ()),
        1 => b.read(0, &mut buf),
        2 => b.set_len(8),
        3 => b.sync_data(),
        4 => b.write(0, &buf),
        _ => b.write_best_effort(0, &buf),
    };
    match r {
        Ok(()) => (true, false, false),
        Err(StorageError::PreviousIo) => (false, true, false),
        Err(StorageError::DatabaseClosed) => (false, false, true),
        Err(_) => (false, false, false),
    }
}

// One symbolic step from an arbitrary state satisfying `closed => io_failed`: an induction over call
// sequences of any length.
#[cfg_attr(kani, kani::proof)]
#[cfg_attr(verif_replay, test)]
fn c20_l1_latch_step() {
    let calls = Arc::new(AtomicU32::new(0));
    let closes = Arc::new(AtomicU32::new(0));
    let b = CheckedBackend::new(Box::new(Mock { calls: calls.clone(), closes: closes.clone() }));
    let pre_failed: bool = vk::any();
    let pre_closed: bool = vk::any();
    vk::assume(!pre_closed || pre_failed);
    b.io_failed.store(pre_failed, Ordering::Release);
    b.closed.store(pre_closed, Ordering::Release);

    let op: u8 = vk::any();
    vk::assume(op < 6);
    let (ok, prev_io, db_closed) = do_op(&b, op);
    let n = calls.load(Ordering::Relaxed);
    let post_failed = b.io_failed.load(Ordering::Acquire);
    let post_closed = b.closed.load(Ordering::Acquire);
    vk::cover!(pre_failed);
    vk::cover!(!pre_failed && ok);
    vk::cover!(!pre_failed && !ok);
    if pre_failed {
        // refused without reaching the backend, with the right error
        assert!(!ok);
        assert!(n == 0);
        assert!(db_closed == pre_closed);
        assert!(prev_io == !pre_closed);
    } else {
        assert!(n == 1);
        if !ok && op != 5 {
            assert!(post_failed);
        }
        if !ok && op == 5 {
            assert!(!post_failed); // best-effort write never latches
        }
        if ok {
            assert!(!post_failed);
        }
    }
    assert!(post_closed == pre_closed);
    assert!(!pre_failed || post_failed); // the latch never resets
    assert!(closes.load(Ordering::Relaxed) == 0);
    core::mem::forget(b);
}

// close(): both flags set, the backend's close() reached exactly once, and afterwards every operation is
// refused with DatabaseClosed without a backend call; Drop after close() does not close again.
#[cfg_attr(kani, kani::proof)]
#[cfg_attr(verif_replay, test)]
fn c20_l2_close_then_nothing() {
    let calls = Arc::new(AtomicU32::new(0));
    let closes = Arc::new(AtomicU32::new(0));
    let b = CheckedBackend::new(Box::new(Mock { calls: calls.clone(), closes: closes.clone() }));
    let pre_failed: bool = vk::any();
    b.io_failed.store(pre_failed, Ordering::Release);
    let r = b.close();
    vk::cover!(r.is_ok());
    vk::cover!(r.is_err());
    core::mem::forget(r);
    assert!(b.closed.load(Ordering::Acquire));
    assert!(b.io_failed.load(Ordering::Acquire));
    assert!(closes.load(Ordering::Relaxed) == 1);
    assert!(calls.load(Ordering::Relaxed) == 1);
    let op: u8 = vk::any();
    vk::assume(op < 6);
    let (ok, _prev_io, db_closed) = do_op(&b, op);
    assert!(!ok && db_closed);
    assert!(calls.load(Ordering::Relaxed) == 1);
    drop(b);
    assert!(closes.load(Ordering::Relaxed) == 1);
}

// Drop without close(): the backend is closed exactly once, whatever the latch state.
#[cfg_attr(kani, kani::proof)]
#[cfg_attr(verif_replay, test)]
fn c20_l2_drop_closes_once() {
    let calls = Arc::new(AtomicU32::new(0));
    let closes = Arc::new(AtomicU32::new(0));
    let b = CheckedBackend::new(Box::new(Mock { calls: calls.clone(), closes: closes.clone() }));
    let pre_failed: bool = vk::any();
    b.io_failed.store(pre_failed, Ordering::Release);
    drop(b);
    assert!(closes.load(Ordering::Relaxed) == 1);
}

// Appended to src/tree_store/page_store/region.rs.  BOUNDED, exhaustive NATIVE checks of RegionTracker::resize (ASSUMED in the
// Verus unit) and of the RegionTracker / BtreeBitmap serialisation round trip.
use super::*;
extern crate std;

#[cfg_attr(verif_replay, test)]
fn x14_region_tracker_resize_contract() {
    for regions in 1u32..=70 {
        for new_cap in regions..=(regions + 70) {
            for marks in 0u32..8 {
                let mut t = RegionTracker::new(regions, 21);
                // mark a few regions free at a few orders
                let picks = [(0u8, 0u32), (3, regions / 2), (20, regions - 1)];
                for (bit, (o, r)) in picks.iter().enumerate() { if marks & (1 << bit) != 0 { t.mark_free(*o, *r); } }
                let before: std::vec::Vec<Option<u32>> = (0u8..21).map(|o| t.find_free(o)).collect();
                t.resize(new_cap);
                assert!(t.len() == new_cap, "tracker resize: len {} != {new_cap}", t.len());
                for o in 0u8..21 {
                    // old regions keep their marks, new regions are reported full: the first possibly-free region is unchanged
                    assert!(t.find_free(o) == before[o as usize], "tracker resize changed find_free({o}): regions={regions} new={new_cap} marks={marks}");
                }
                // a new region can then be marked
                if new_cap > regions {
                    t.mark_free(2, new_cap - 1);
                    for o in 0u8..=2 { assert!(t.find_free(o).is_some()); }
                }
            }
        }
    }
}

#[cfg_attr(verif_replay, test)]
fn x14_region_tracker_roundtrip() {
    for regions in 1u32..=130 {
        for marks in 0u32..8 {
            let mut t = RegionTracker::new(regions, 21);
            let picks = [(0u8, 0u32), (3, regions / 2), (20, regions - 1)];
            for (bit, (o, r)) in picks.iter().enumerate() { if marks & (1 << bit) != 0 { t.mark_free(*o, *r); } }
            let u = RegionTracker::from_bytes(&t.to_vec());
            assert!(u.len() == t.len());
            for o in 0u8..21 { assert!(u.find_free(o) == t.find_free(o), "tracker round trip changed find_free({o}): regions={regions} marks={marks}"); }
        }
    }
}

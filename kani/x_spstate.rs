// Appended to src/transactions.rs.  BOUNDED, exhaustive NATIVE check of the contracts of the REAL SavepointTransactionState
// (BTreeSet / drain / mem::take bodies) together with the REAL TransactionTracker it drives.
//
// Setup: up to three persistent savepoints (ids 1..=3, each on transaction 1 or 2 - so several may share a transaction) are
// registered with a fresh tracker; the transaction-local state records any subset as created in this transaction, any subset as
// deleted (in either order), and any subset of ids as invalidated by a restore.
// Contracts (C07):
//   apply_on_commit   deleted savepoints release their pin and become invalid; invalidated ids become invalid and KEEP their pin
//                     (their owner releases it); created savepoints stay valid and pinned; the local state ends empty
//   apply_on_abort    created savepoints release their pin and become invalid (their records roll back); deleted ones stay valid
//                     and pinned; invalidations are forgotten; the local state ends empty
//   pending_deleted_ids == ids recorded as deleted; is_invalidated(id) == id recorded as invalidated;
//   has_created_or_deleted == something was recorded as created or deleted
// The pins are observed by draining the tracker (oldest_live_read_transaction / deallocate_read_transaction) at the end.
use super::*;
extern crate std;
use crate::tree_store::SerializedSavepoint;
use std::collections::BTreeSet as S;
use std::vec::Vec as V;

fn mk_savepoint(tracker: &Arc<TransactionTracker>, sid: u64, tid: u64) -> Savepoint {
    let mut b = V::new();
    b.push(3u8);
    b.extend(sid.to_le_bytes());
    b.extend(tid.to_le_bytes());
    b.push(0);
    b.extend([0u8; 32]);
    <SerializedSavepoint as Value>::from_bytes(&b).to_savepoint(tracker.clone()).unwrap()
}

fn drain_pins(tracker: &TransactionTracker) -> V<u64> {
    let mut v = V::new();
    while let Some(t) = tracker.oldest_live_read_transaction() {
        v.push(t.raw_id());
        tracker.deallocate_read_transaction(t);
    }
    v
}

fn bits(mask: u8) -> V<u64> {
    (1u64..=3).filter(|i| mask & (1 << (i - 1)) != 0).collect()
}

#[cfg_attr(verif_replay, test)]
fn xb_savepoint_state_contracts() {
    let mut cases = 0u64;
    // which savepoints exist, and the transaction of each (bit i of tmask: savepoint i+1 is on transaction 2, else 1)
    for exist in 0u8..8 {
        for tmask in 0u8..8 {
            let txn_of = |s: u64| if tmask & (1 << (s - 1)) != 0 { 2u64 } else { 1u64 };
            for created in 0u8..8 {
                if created & !exist != 0 { continue; }
                for deleted in 0u8..8 {
                    if deleted & !exist != 0 { continue; }
                    for rev in 0u8..2 {
                        for inval in 0u8..8 {
                            for commit in [true, false] {
                                let tracker = Arc::new(TransactionTracker::new(TransactionId::new(10)));
                                for s in bits(exist) {
                                    let sp = mk_savepoint(&tracker, s, txn_of(s));
                                    tracker.register_persistent_savepoint(&sp);
                                }
                                let mut st = SavepointTransactionState::default();
                                for s in bits(created) { st.record_created(SavepointId(s), TransactionId::new(txn_of(s))); }
                                let mut del = bits(deleted);
                                if rev == 1 { del.reverse(); }
                                for s in &del { st.record_deleted(SavepointId(*s), TransactionId::new(txn_of(*s))); }
                                st.record_invalidated(bits(inval).into_iter().map(SavepointId));
                                let ctx = std::format!("exist={:?} txn2={:?} created={:?} deleted={:?} invalidated={:?} commit={commit}",
                                    bits(exist), bits(tmask), bits(created), del, bits(inval));
                                // observers of the local state
                                let pd: S<u64> = st.pending_deleted_ids().into_iter().map(|x| x.0).collect();
                                assert!(pd == bits(deleted).into_iter().collect::<S<u64>>(), "pending_deleted_ids {:?} [{ctx}]", pd);
                                for s in 1u64..=3 {
                                    assert!(st.is_invalidated(SavepointId(s)) == bits(inval).contains(&s), "is_invalidated({s}) [{ctx}]");
                                }
                                assert!(st.has_created_or_deleted() == (created != 0 || deleted != 0), "has_created_or_deleted [{ctx}]");
                                let (gone, unpinned): (V<u64>, V<u64>) = if commit {
                                    st.apply_on_commit(&tracker);
                                    (bits(deleted | (inval & exist)), bits(deleted))
                                } else {
                                    st.apply_on_abort(&tracker);
                                    (bits(created), bits(created))
                                };
                                for s in 1u64..=3 {
                                    let want = bits(exist).contains(&s) && !gone.contains(&s);
                                    assert!(tracker.is_valid_savepoint(SavepointId(s)) == want,
                                        "after {}: savepoint {s} valid = {}, contract says {want} [{ctx}]",
                                        if commit { "apply_on_commit" } else { "apply_on_abort" }, !want);
                                }
                                assert!(!st.has_created_or_deleted() && st.pending_deleted_ids().is_empty(), "local state not emptied [{ctx}]");
                                for s in 1u64..=3 { assert!(!st.is_invalidated(SavepointId(s)), "invalidation kept in the local state [{ctx}]"); }
                                let mut want_pins: V<u64> = bits(exist).into_iter().filter(|s| !unpinned.contains(s)).map(txn_of).collect();
                                want_pins.sort_unstable();
                                let got = drain_pins(&tracker);
                                assert!(got == want_pins, "after {}: pins {:?}, contract says {:?} [{ctx}]",
                                    if commit { "apply_on_commit" } else { "apply_on_abort" }, got, want_pins);
                                cases += 1;
                            }
                        }
                    }
                }
            }
        }
    }
    assert!(cases > 10_000, "vacuous: only {cases} cases ran");
}

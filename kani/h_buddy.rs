// Appended to src/tree_store/page_store/buddy_allocator.rs.  BOUNDED twins of the contracts the Verus unit `alloc` ASSUMES
// for functions whose bodies Verus cannot read (iterator adapters, iter_mut loops): BuddyAllocator::resize and
// BuddyAllocator::highest_free_order.  Capacity 8 pages, one symbolic allocation before the call.
use super::*;
use crate::vk;

const CAP: u32 = 8;

// page p is free: it lies inside a block that is marked free at some order
fn page_free(a: &BuddyAllocator, p: u32) -> bool {
    let mut q = p;
    let mut o = 0u8;
    while o <= a.max_order {
        let bm = a.get_order_free(o);
        if q < bm.len() && !bm.get(q) {
            return true;
        }
        q /= 2;
        o += 1;
    }
    false
}

fn any_allocator() -> BuddyAllocator {
    let n: u32 = vk::any();
    vk::assume(1 <= n && n <= CAP);
    let mut a = BuddyAllocator::new(n, CAP);
    if vk::any() {
        let o: u8 = vk::any();
        vk::assume(o <= 2);
        let _ = a.alloc(o);
    }
    a
}

#[cfg_attr(kani, kani::proof)]
#[cfg_attr(kani, kani::unwind(12))]
#[cfg_attr(verif_replay, test)]
fn c14_b_resize_contract_cap8() {
    let mut a = any_allocator();
    let old_len = a.len();
    let mut before = [false; CAP as usize];
    let mut p = 0u32;
    while p < old_len { before[p as usize] = page_free(&a, p); p += 1; }
    let new_size: u32 = vk::any();
    vk::assume(1 <= new_size && new_size <= CAP);
    // shrinking is only allowed over free trailing pages (the assumed contract's precondition)
    let mut q = new_size;
    while q < old_len { vk::assume(before[q as usize]); q += 1; }
    let mo = a.get_max_order();
    a.resize(new_size);
    assert!(a.len() == new_size);
    assert!(a.get_max_order() == mo);
    let i: u32 = vk::any();
    vk::assume(i < new_size);
    if i < old_len {
        assert!(page_free(&a, i) == before[i as usize]);     // pages that stay keep their state
    } else {
        assert!(page_free(&a, i));                            // pages that are added are free
    }
    vk::cover!(new_size > old_len);
    vk::cover!(new_size < old_len);
}

#[cfg_attr(kani, kani::proof)]
#[cfg_attr(kani, kani::unwind(12))]
#[cfg_attr(verif_replay, test)]
fn c14_b_highest_free_order_cap8() {
    let a = any_allocator();
    let r = a.highest_free_order();
    let o: u8 = vk::any();
    vk::assume(o <= a.get_max_order());
    let has = a.get_order_free(o).has_unset();
    match r {
        Some(k) => {
            assert!(k <= a.get_max_order());
            assert!(a.get_order_free(k).has_unset());
            if o > k { assert!(!has); }
        }
        None => { assert!(!has); }
    }
    vk::cover!(r.is_some());
}

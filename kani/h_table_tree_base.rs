// Appended to src/tree_store/table_tree_base.rs.  C17-K1 (bounded: type names from a pool of four): opening a table
// with a different kind, alignment, key type, value type or fixed width is refused with the corresponding error;
// Ok(()) only when everything agrees.
use super::*;
use crate::vk;

fn stub_format(_: core::fmt::Arguments<'_>) -> alloc::string::String { alloc::string::String::new() }

fn pick_name(i: u8) -> TypeName {
    match i {
        0 => TypeName::internal("u64"),
        1 => TypeName::internal("&str"),
        2 => TypeName::new("u64"), // a *user* type that happens to be called u64
        _ => TypeName::internal("u32"),
    }
}

#[cfg_attr(kani, kani::proof)]
#[cfg_attr(kani, kani::unwind(12))]
#[cfg_attr(kani, kani::stub(alloc::fmt::format, stub_format))]
#[cfg_attr(verif_replay, test)]
fn c17_k1_check_match_u64_str() {
    let ki: u8 = vk::any();
    let vi: u8 = vk::any();
    vk::assume(ki < 4 && vi < 4);
    let fixed_key_size: Option<usize> = if vk::any() { Some(vk::any::<u8>() as usize) } else { None };
    let fixed_value_size: Option<usize> = if vk::any() { Some(vk::any::<u8>() as usize) } else { None };
    let key_alignment: usize = vk::any::<u8>() as usize;
    let value_alignment: usize = vk::any::<u8>() as usize;
    let multimap: bool = vk::any();
    let def = if multimap {
        InternalTableDefinition::Multimap { table_root: None, table_length: 0, fixed_key_size, fixed_value_size, key_alignment, value_alignment, key_type: pick_name(ki), value_type: pick_name(vi) }
    } else {
        InternalTableDefinition::Normal { table_root: None, table_length: 0, fixed_key_size, fixed_value_size, key_alignment, value_alignment, key_type: pick_name(ki), value_type: pick_name(vi) }
    };
    let want_multimap: bool = vk::any();
    let want = if want_multimap { TableType::Multimap } else { TableType::Normal };
    let r = def.check_match::<u64, &str>(want, "t");
    vk::cover!(r.is_ok());
    vk::cover!(r.is_err());
    let all_agree = multimap == want_multimap && key_alignment == 1 && value_alignment == 1 && ki == 0 && vi == 1
        && fixed_key_size == Some(8) && fixed_value_size.is_none();
    assert!(r.is_ok() == all_agree);
    // the *corresponding* error
    if multimap != want_multimap {
        if multimap { assert!(matches!(r, Err(TableError::TableIsMultimap(_)))); } else { assert!(matches!(r, Err(TableError::TableIsNotMultimap(_)))); }
    } else if key_alignment != 1 || value_alignment != 1 {
        assert!(matches!(r, Err(TableError::TypeDefinitionChanged { .. })));
    } else if ki != 0 || vi != 1 {
        assert!(matches!(r, Err(TableError::TableTypeMismatch { .. })));
    } else if !all_agree {
        assert!(matches!(r, Err(TableError::TypeDefinitionChanged { .. })));
    }
    core::mem::forget(r);
    core::mem::forget(def);
}

use crate::vk;

    use super::*;
    use crate::tree_store::PageNumber;

    fn any_btree_header() -> BtreeHeader {
        let region: u32 = vk::any();
        let index: u32 = vk::any();
        let order: u8 = vk::any();
        vk::assume(region <= 0x000F_FFFF);
        vk::assume(order <= 20);
        vk::assume(u64::from(index) < (1u64 << (20 - order)));
        BtreeHeader::new(PageNumber::new(region, index, order), vk::any(), vk::any())
    }

    fn any_opt_header() -> Option<BtreeHeader> {
        if vk::any() { Some(any_btree_header()) } else { None }
    }

    fn any_slot() -> TransactionHeader {
        TransactionHeader {
            version: FILE_FORMAT_VERSION3,
            user_root: any_opt_header(),
            system_root: any_opt_header(),
            transaction_id: TransactionId::new(vk::any()),
            corrupt_bytes: None,
        }
    }

    fn stub_format(_: core::fmt::Arguments<'_>) -> alloc::string::String { alloc::string::String::new() }

    // deterministic stand-in for the checksum: any pure function of the bytes
    fn stub_xxh3(data: &[u8]) -> Checksum {
        let mut acc: u128 = 0x9E37_79B9_7F4A_7C15;
        let mut i = 0;
        while i < data.len() {
            acc = acc.rotate_left(5) ^ u128::from(data[i]);
            i += 1;
        }
        acc
    }

    #[cfg_attr(kani, kani::proof)]
    #[cfg_attr(verif_replay, test)]
    #[cfg_attr(kani, kani::stub(alloc::fmt::format, stub_format))]
    #[cfg_attr(kani, kani::stub(crate::tree_store::page_store::page_manager::xxh3_checksum, stub_xxh3))]
    #[cfg_attr(kani, kani::unwind(130))]
    fn slot_roundtrip_real_xxh3() {
        let s = any_slot();
        let bytes = s.to_bytes();
        let Ok((d, corrupted)) = TransactionHeader::from_bytes(&bytes) else { panic!() };
        assert!(!corrupted);
        assert!(d.user_root == s.user_root);
        assert!(d.system_root == s.system_root);
        assert!(d.transaction_id == s.transaction_id);
    }

    fn any_db_header() -> DatabaseHeader {
        DatabaseHeader {
            primary_slot: if vk::any() { 1 } else { 0 },
            recovery_required: vk::any(),
            two_phase_commit: vk::any(),
            page_size: vk::any(),
            region_header_pages: vk::any(),
            region_max_data_pages: vk::any(),
            full_regions: vk::any(),
            trailing_partial_region_pages: vk::any(),
            transaction_slots: [any_slot(), any_slot()],
        }
    }

    // C01-K4: with recovery_required the layout is rebuilt from the file length
    #[cfg_attr(kani, kani::proof)]
    #[cfg_attr(verif_replay, test)]
    #[cfg_attr(kani, kani::stub(alloc::fmt::format, stub_format))]
    #[cfg_attr(kani, kani::stub(crate::tree_store::page_store::page_manager::xxh3_checksum, stub_xxh3))]
    #[cfg_attr(kani, kani::unwind(130))]
    fn finalize_uses_file_len() {
        let mut inner = any_db_header();
        inner.recovery_required = true;
        inner.two_phase_commit = true; // keep select_primary_slot trivial
        // geometry as validated by from_bytes
        vk::assume(inner.page_size == 4096);
        vk::assume(inner.region_max_data_pages >= 1 && inner.region_max_data_pages <= 0x10_0000);
        vk::assume(inner.region_header_pages <= 0x10_0000);
        let u = UnrepairedDatabaseHeader { inner, primary_corrupted: false, secondary_corrupted: vk::any() };
        let file_len: u64 = vk::any();
        if let Ok((h, _clean)) = u.finalize(file_len) {
            assert!(h.layout().len() == file_len);
        }
    }

    // C01-K2: flipping the primary and setting the 2PC flag changes exactly one byte
    #[cfg_attr(kani, kani::proof)]
    #[cfg_attr(verif_replay, test)]
    #[cfg_attr(kani, kani::stub(alloc::fmt::format, stub_format))]
    #[cfg_attr(kani, kani::stub(crate::tree_store::page_store::page_manager::xxh3_checksum, stub_xxh3))]
    #[cfg_attr(kani, kani::unwind(130))]
    fn god_byte_only() {
        let h = any_db_header();
        let mut h2 = h.clone();
        if vk::any() { h2.swap_primary_slot(); }
        h2.two_phase_commit = vk::any();
        h2.recovery_required = vk::any();
        let a = h.to_bytes(true);
        let b = h2.to_bytes(true);
        let i: usize = vk::any();
        vk::assume(i < DB_HEADER_SIZE && i != GOD_BYTE_OFFSET);
        assert!(a[i] == b[i]);
        let g = b[GOD_BYTE_OFFSET];
        assert!((g & PRIMARY_BIT != 0) == (h2.primary_slot == 1));
        assert!((g & RECOVERY_REQUIRED != 0) == h2.recovery_required);
        assert!((g & TWO_PHASE_COMMIT != 0) == h2.two_phase_commit);
        assert!(g & !7 == 0);
    }

    // C12-K1/K2: corrupted flag is exact; a corrupt slot is written back verbatim
    #[cfg_attr(kani, kani::proof)]
    #[cfg_attr(verif_replay, test)]
    #[cfg_attr(kani, kani::stub(alloc::fmt::format, stub_format))]
    #[cfg_attr(kani, kani::stub(crate::tree_store::page_store::page_manager::xxh3_checksum, stub_xxh3))]
    #[cfg_attr(kani, kani::unwind(130))]
    fn corrupt_slot_verbatim() {
        let mut d: [u8; TRANSACTION_SIZE] = vk::any();
        d[VERSION_OFFSET] = FILE_FORMAT_VERSION3;
        let Ok((h, corrupted)) = TransactionHeader::from_bytes(&d) else { panic!() };
        let mut stored = [0u8; 16];
        stored.copy_from_slice(&d[SLOT_CHECKSUM_OFFSET..]);
        let expect = Checksum::from_le_bytes(stored) != stub_xxh3(&d[..SLOT_CHECKSUM_OFFSET]);
        assert!(corrupted == expect);
        if corrupted {
            let back = h.to_bytes();
            let i: usize = vk::any();
            vk::assume(i < TRANSACTION_SIZE);
            assert!(back[i] == d[i]);
        }
    }

    #[cfg_attr(kani, kani::proof)]
    #[cfg_attr(verif_replay, test)]
    fn select_primary() {
        let s0 = TransactionHeader::new(TransactionId::new(vk::any()));
        let s1 = TransactionHeader::new(TransactionId::new(vk::any()));
        let primary: usize = if vk::any() { 1 } else { 0 };
        let two_phase: bool = vk::any();
        let pc: bool = vk::any();
        let sc: bool = vk::any();
        let t0 = s0.transaction_id;
        let t1 = s1.transaction_id;
        let mut h = UnrepairedDatabaseHeader {
            inner: DatabaseHeader {
                primary_slot: primary,
                recovery_required: vk::any(),
                two_phase_commit: two_phase,
                page_size: 4096,
                region_header_pages: 0,
                region_max_data_pages: 1024,
                full_regions: 0,
                trailing_partial_region_pages: 10,
                transaction_slots: [s0, s1],
            },
            primary_corrupted: pc,
            secondary_corrupted: sc,
        };
        let r = h.select_primary_slot();
        let (tp, ts) = if primary == 0 { (t0, t1) } else { (t1, t0) };
        match r {
            Err(_) => assert!((two_phase && pc) || (!two_phase && pc && sc)),
            Ok(kept) => {
                assert!(kept == (h.inner.primary_slot == primary));
                // never select a corrupted slot
                if kept { assert!(!pc); } else { assert!(!sc); }
                if !two_phase && !pc && !sc {
                    // newest wins
                    assert!(h.inner.primary_slot().transaction_id >= h.inner.secondary_slot().transaction_id);
                }
                if two_phase { assert!(kept); }
                let _ = (tp, ts);
            }
        }
    }

// Harnesses appended (as a child module) to src/tree_store/page_store/header.rs in the per-run scratch copy.
// Offsets used as the oracle are literals transcribed from docs/design.md ("Database header (64 bytes)",
// "Transaction slot 0 (128 bytes)"), not the constants of header.rs.
use super::*;
use crate::tree_store::PageNumber;
use crate::vk;

fn any_btree_header() -> BtreeHeader {
    let region: u32 = vk::any();
    let index: u32 = vk::any();
    let order: u8 = vk::any();
    vk::assume(region <= 0x000F_FFFF);
    vk::assume(order <= 20);
    vk::assume(u64::from(index) < (1u64 << (20 - order)));
    BtreeHeader::new(PageNumber::new(region, index, order), vk::any(), vk::any())
}

fn any_opt_header() -> Option<BtreeHeader> {
    if vk::any() { Some(any_btree_header()) } else { None }
}

fn any_slot() -> TransactionHeader {
    TransactionHeader {
        version: FILE_FORMAT_VERSION3,
        user_root: any_opt_header(),
        system_root: any_opt_header(),
        transaction_id: TransactionId::new(vk::any()),
        corrupt_bytes: None,
    }
}

fn stub_format(_: core::fmt::Arguments<'_>) -> alloc::string::String { alloc::string::String::new() }

// deterministic stand-in for the checksum under Kani: *some* pure function of the bytes (trusted base T8).
fn stub_xxh3(data: &[u8]) -> Checksum {
    let mut acc: u128 = 0x9E37_79B9_7F4A_7C15;
    let mut i = 0;
    while i < data.len() {
        acc = acc.rotate_left(5) ^ u128::from(data[i]);
        i += 1;
    }
    acc
}

// the checksum function the running build uses (stubbed under Kani, real in replay)
fn ck(data: &[u8]) -> Checksum {
    xxh3_checksum(data)
}

fn any_db_header() -> DatabaseHeader {
    DatabaseHeader {
        primary_slot: if vk::any() { 1 } else { 0 },
        recovery_required: vk::any(),
        two_phase_commit: vk::any(),
        page_size: vk::any(),
        region_header_pages: vk::any(),
        region_max_data_pages: vk::any(),
        full_regions: vk::any(),
        trailing_partial_region_pages: vk::any(),
        transaction_slots: [TransactionHeader::new(TransactionId::new(0)), TransactionHeader::new(TransactionId::new(0))],
    }
}

// C01-K1: a freshly written slot decodes to itself and verifies
#[cfg_attr(kani, kani::proof)]
#[cfg_attr(kani, kani::stub(alloc::fmt::format, stub_format))]
#[cfg_attr(kani, kani::stub(crate::tree_store::page_store::page_manager::xxh3_checksum, stub_xxh3))]
#[cfg_attr(kani, kani::unwind(130))]
#[cfg_attr(verif_replay, test)]
fn c01_k1_slot_roundtrip() {
    let s = any_slot();
    let bytes = s.to_bytes();
    let Ok((d, corrupted)) = TransactionHeader::from_bytes(&bytes) else { panic!("C01-K1: a written slot was rejected") };
    assert!(!corrupted);
    assert!(d.version == s.version);
    assert!(d.user_root == s.user_root);
    assert!(d.system_root == s.system_root);
    assert!(d.transaction_id == s.transaction_id);
    assert!(d.corrupt_bytes.is_none());
}

// C10-F3: slot layout per docs/design.md
#[cfg_attr(kani, kani::proof)]
#[cfg_attr(kani, kani::stub(alloc::fmt::format, stub_format))]
#[cfg_attr(kani, kani::stub(crate::tree_store::page_store::page_manager::xxh3_checksum, stub_xxh3))]
#[cfg_attr(kani, kani::unwind(130))]
#[cfg_attr(verif_replay, test)]
fn c10_f3_slot_layout() {
    let s = any_slot();
    let b = s.to_bytes();
    assert!(b.len() == 128);
    assert!(b[0] == 3);
    assert!(b[1] == u8::from(s.user_root.is_some()));
    assert!(b[2] == u8::from(s.system_root.is_some()));
    let i: usize = vk::any();
    vk::assume(i < 128);
    // reserved / padding bytes are zero: byte 3..8, 72..104
    if (3..8).contains(&i) || (72..104).contains(&i) {
        assert!(b[i] == 0);
    }
    if let Some(h) = s.user_root {
        let hb = h.to_le_bytes();
        if (8..40).contains(&i) { assert!(b[i] == hb[i - 8]); }
    } else if (8..40).contains(&i) {
        assert!(b[i] == 0);
    }
    if let Some(h) = s.system_root {
        let hb = h.to_le_bytes();
        if (40..72).contains(&i) { assert!(b[i] == hb[i - 40]); }
    } else if (40..72).contains(&i) {
        assert!(b[i] == 0);
    }
    let t = s.transaction_id.raw_id().to_le_bytes();
    if (104..112).contains(&i) { assert!(b[i] == t[i - 104]); }
    // slot checksum: the last 16 bytes, over all preceding bytes
    let c = ck(&b[..112]).to_le_bytes();
    if (112..128).contains(&i) { assert!(b[i] == c[i - 112]); }
}

// C01-K2: the commit point is one byte.  Flipping the primary / the 2PC flag / recovery flag changes only byte 9,
// whose low three bits decode back and whose other bits are zero.
#[cfg_attr(kani, kani::proof)]
#[cfg_attr(kani, kani::stub(alloc::fmt::format, stub_format))]
#[cfg_attr(kani, kani::stub(crate::tree_store::page_store::page_manager::xxh3_checksum, stub_xxh3))]
#[cfg_attr(kani, kani::unwind(130))]
#[cfg_attr(verif_replay, test)]
fn c01_k2_god_byte_only() {
    // slot serialisation does not read the flags (C10-F3 / C01-K1 cover it); simple slots keep this harness cheap
    let mut h = any_db_header();
    h.transaction_slots = [TransactionHeader::new(TransactionId::new(vk::any())), TransactionHeader::new(TransactionId::new(vk::any()))];
    let mut h2 = h.clone();
    if vk::any() { h2.swap_primary_slot(); }
    h2.two_phase_commit = vk::any();
    h2.recovery_required = vk::any();
    let a = h.to_bytes(true);
    let b = h2.to_bytes(true);
    let i: usize = vk::any();
    vk::assume(i < 320 && i != 9);
    assert!(a[i] == b[i]);
    let g = b[9];
    assert!((g & 1 != 0) == (h2.primary_slot == 1));
    assert!((g & 2 != 0) == h2.recovery_required);
    assert!((g & 4 != 0) == h2.two_phase_commit);
    assert!(g & !7 == 0);
}

// C10-F4: database header layout per docs/design.md
#[cfg_attr(kani, kani::proof)]
#[cfg_attr(kani, kani::stub(alloc::fmt::format, stub_format))]
#[cfg_attr(kani, kani::stub(crate::tree_store::page_store::page_manager::xxh3_checksum, stub_xxh3))]
#[cfg_attr(kani, kani::unwind(130))]
#[cfg_attr(verif_replay, test)]
fn c10_f4_header_layout() {
    // the slots' own layout is C10-F3; here they only need to be distinguishable
    let mut h = any_db_header();
    h.transaction_slots = [TransactionHeader::new(TransactionId::new(vk::any())), TransactionHeader::new(TransactionId::new(vk::any()))];
    let b = h.to_bytes(true);
    assert!(b.len() == 320);
    let magic: [u8; 9] = [b'r', b'e', b'd', b'b', 0x1A, 0x0A, 0xA9, 0x0D, 0x0A];
    let i: usize = vk::any();
    vk::assume(i < 320);
    if i < 9 { assert!(b[i] == magic[i]); }
    if i == 10 || i == 11 || (32..64).contains(&i) { assert!(b[i] == 0); }
    if (12..16).contains(&i) { assert!(b[i] == h.page_size.to_le_bytes()[i - 12]); }
    if (16..20).contains(&i) { assert!(b[i] == h.region_header_pages.to_le_bytes()[i - 16]); }
    if (20..24).contains(&i) { assert!(b[i] == h.region_max_data_pages.to_le_bytes()[i - 20]); }
    if (24..28).contains(&i) { assert!(b[i] == h.full_regions.to_le_bytes()[i - 24]); }
    if (28..32).contains(&i) { assert!(b[i] == h.trailing_partial_region_pages.to_le_bytes()[i - 28]); }
    let s0 = h.transaction_slots[0].to_bytes();
    let s1 = h.transaction_slots[1].to_bytes();
    if (64..192).contains(&i) { assert!(b[i] == s0[i - 64]); }
    if (192..320).contains(&i) { assert!(b[i] == s1[i - 192]); }
}

// C01-K3 / C12-K3: slot selection
#[cfg_attr(kani, kani::proof)]
#[cfg_attr(kani, kani::stub(alloc::fmt::format, stub_format))]
#[cfg_attr(verif_replay, test)]
fn c01_k3_select_primary() {
    let s0 = TransactionHeader::new(TransactionId::new(vk::any()));
    let s1 = TransactionHeader::new(TransactionId::new(vk::any()));
    let primary: usize = if vk::any() { 1 } else { 0 };
    let two_phase: bool = vk::any();
    let pc: bool = vk::any();
    let sc: bool = vk::any();
    let mut h = UnrepairedDatabaseHeader {
        inner: DatabaseHeader {
            primary_slot: primary,
            recovery_required: vk::any(),
            two_phase_commit: two_phase,
            page_size: 4096,
            region_header_pages: 0,
            region_max_data_pages: 1024,
            full_regions: 0,
            trailing_partial_region_pages: 10,
            transaction_slots: [s0, s1],
        },
        primary_corrupted: pc,
        secondary_corrupted: sc,
    };
    let r = h.select_primary_slot();
    let expect_err = (two_phase && pc) || (!two_phase && pc && sc);
    vk::cover!(expect_err);
    vk::cover!(!expect_err);
    match r {
        Err(_) => { assert!(expect_err); }
        Ok(kept) => {
            assert!(!expect_err);
            assert!(kept == (h.inner.primary_slot == primary));
            // never select a slot that failed verification
            if kept { assert!(!pc); } else { assert!(!sc); }
            // under two-phase commit the primary is kept
            if two_phase { assert!(kept); }
            // one-phase, both valid: the newer transaction wins
            if !two_phase && !pc && !sc {
                assert!(h.inner.primary_slot().transaction_id >= h.inner.secondary_slot().transaction_id);
            }
        }
    }
}

// C01-K4: with recovery_required the layout is rebuilt from the file length, whatever the stored counts were;
// without it, a file shorter than the stored layout is rejected.
#[cfg_attr(kani, kani::proof)]
#[cfg_attr(kani, kani::stub(alloc::fmt::format, stub_format))]
#[cfg_attr(kani, kani::stub(crate::tree_store::page_store::page_manager::xxh3_checksum, stub_xxh3))]
#[cfg_attr(kani, kani::unwind(130))]
#[cfg_attr(verif_replay, test)]
fn c01_k4_finalize_uses_file_len() {
    let mut inner = any_db_header();
    inner.recovery_required = true;
    inner.two_phase_commit = true; // keeps select_primary_slot trivial; selection is C01-K3
    // geometry as validated by from_bytes
    vk::assume(inner.page_size == 4096);
    vk::assume(inner.region_max_data_pages >= 1 && inner.region_max_data_pages <= 0x10_0000);
    vk::assume(inner.region_header_pages <= 0x10_0000);
    let u = UnrepairedDatabaseHeader { inner, primary_corrupted: false, secondary_corrupted: vk::any() };
    let file_len: u64 = vk::any();
    let r = u.finalize(file_len);
    vk::cover!(r.is_ok());
    vk::cover!(r.is_err());
    if let Ok((h, _kept_primary, _layout_matched)) = r {
        assert!(h.layout().len() == file_len);
    }
}

// C11-K4: the two causes of "something was reconciled" are reported apart: with recovery required, the layout flag says exactly
// whether the stored region counts already were the ones rebuilt from the file length.  One region geometry (the division by the
// region size is then by a constant), every stored count, every file length.
#[cfg_attr(kani, kani::proof)]
#[cfg_attr(kani, kani::stub(alloc::fmt::format, stub_format))]
#[cfg_attr(kani, kani::stub(crate::tree_store::page_store::page_manager::xxh3_checksum, stub_xxh3))]
#[cfg_attr(kani, kani::unwind(130))]
#[cfg_attr(verif_replay, test)]
fn c11_k4_finalize_flags() {
    let mut inner = any_db_header();
    inner.recovery_required = true;
    inner.two_phase_commit = true;
    inner.page_size = 4096;
    inner.region_max_data_pages = 1024;
    inner.region_header_pages = 1;
    let stored_full = inner.full_regions;
    let stored_trailing = inner.trailing_partial_region_pages;
    let u = UnrepairedDatabaseHeader { inner, primary_corrupted: false, secondary_corrupted: vk::any() };
    let file_len: u64 = vk::any();
    let r = u.finalize(file_len);
    if let Ok((h, kept_primary, layout_matched)) = r {
        assert!(kept_primary);
        // C01-K4 for this geometry: the layout is rebuilt from the file length, whatever the stored counts were
        assert!(h.layout().len() == file_len);
        assert!(layout_matched == (h.full_regions == stored_full && h.trailing_partial_region_pages == stored_trailing));
        vk::cover!(layout_matched);
        vk::cover!(!layout_matched);
    }
}

#[cfg_attr(kani, kani::proof)]
#[cfg_attr(kani, kani::stub(alloc::fmt::format, stub_format))]
#[cfg_attr(kani, kani::stub(crate::tree_store::page_store::page_manager::xxh3_checksum, stub_xxh3))]
#[cfg_attr(kani, kani::unwind(130))]
#[cfg_attr(verif_replay, test)]
fn c01_k4b_finalize_rejects_truncation() {
    let mut inner = any_db_header();
    inner.recovery_required = false;
    inner.two_phase_commit = true;
    // one region geometry (the division by the region size is then by a constant): with every geometry of page size 4096 and the
    // exact flag assertion below CBMC did not finish in an hour
    inner.page_size = 4096;
    inner.region_max_data_pages = 1024;
    inner.region_header_pages = 1;
    // counts as validated by from_bytes for a cleanly closed file
    vk::assume(inner.trailing_partial_region_pages <= inner.region_max_data_pages);
    let nregions = u64::from(inner.full_regions) + u64::from(inner.trailing_partial_region_pages > 0);
    vk::assume(nregions >= 1 && nregions <= 0x10_0000);
    let stored = inner.layout().len();
    let u = UnrepairedDatabaseHeader { inner, primary_corrupted: false, secondary_corrupted: vk::any() };
    let file_len: u64 = vk::any();
    let r = u.finalize(file_len);
    vk::cover!(r.is_ok());
    match r {
        Ok((h, kept_primary, layout_matched)) => {
            assert!(file_len >= stored);
            assert!(h.layout().len() == file_len);
            assert!(kept_primary);
            assert!(layout_matched == (file_len == stored));
        }
        Err(_) => {}
    }
}

// C12-K1/K2: the corrupted flag is exactly "stored checksum != computed"; a slot that failed verification is
// written back verbatim (never re-serialised as valid); write_secondary_slot clears the remembered bytes.
#[cfg_attr(kani, kani::proof)]
#[cfg_attr(kani, kani::stub(alloc::fmt::format, stub_format))]
#[cfg_attr(kani, kani::stub(crate::tree_store::page_store::page_manager::xxh3_checksum, stub_xxh3))]
#[cfg_attr(kani, kani::unwind(130))]
#[cfg_attr(verif_replay, test)]
fn c12_k1k2_corrupt_slot_verbatim() {
    let mut d: [u8; 128] = vk::any_bytes::<128>();
    d[0] = 3;
    let Ok((h, corrupted)) = TransactionHeader::from_bytes(&d) else { panic!("C12-K1: a version 3 slot was rejected") };
    let mut stored = [0u8; 16];
    stored.copy_from_slice(&d[112..]);
    let expect = Checksum::from_le_bytes(stored) != ck(&d[..112]);
    assert!(corrupted == expect);
    vk::cover!(corrupted);
    vk::cover!(!corrupted);
    if corrupted {
        let back = h.to_bytes();
        let i: usize = vk::any();
        vk::assume(i < 128);
        assert!(back[i] == d[i]);
    }
}

#[cfg_attr(kani, kani::proof)]
#[cfg_attr(kani, kani::stub(alloc::fmt::format, stub_format))]
#[cfg_attr(kani, kani::stub(crate::tree_store::page_store::page_manager::xxh3_checksum, stub_xxh3))]
#[cfg_attr(kani, kani::unwind(130))]
#[cfg_attr(verif_replay, test)]
fn c12_k2b_new_commit_clears_corrupt_bytes() {
    let primary: usize = if vk::any() { 1 } else { 0 };
    let mut h = DatabaseHeader {
        primary_slot: primary,
        recovery_required: vk::any(),
        two_phase_commit: vk::any(),
        page_size: 4096,
        region_header_pages: 0,
        region_max_data_pages: 1024,
        full_regions: 0,
        trailing_partial_region_pages: 10,
        transaction_slots: [TransactionHeader::new(TransactionId::new(vk::any())), TransactionHeader::new(TransactionId::new(vk::any()))],
    };
    let junk: [u8; 128] = vk::any_bytes::<128>();
    let sec = primary ^ 1;
    h.transaction_slots[sec].corrupt_bytes = Some(junk);
    let prim_id = h.transaction_slots[primary].transaction_id;
    let id = TransactionId::new(vk::any());
    let ur = any_opt_header();
    let sr = any_opt_header();
    h.write_secondary_slot(id, ur, sr);
    let s = &h.transaction_slots[sec];
    // the remembered bytes of the failed slot are gone: to_bytes() will serialise the new commit (C01-K1)
    assert!(s.corrupt_bytes.is_none());
    assert!(s.version == 3);
    assert!(s.transaction_id == id && s.user_root == ur && s.system_root == sr);
    // the primary slot is untouched and still primary
    assert!(h.primary_slot == primary);
    assert!(h.transaction_slots[primary].transaction_id == prim_id);
}

// C12-K4: version gate — 1/2 => UpgradeRequired, anything else != 3 => Corrupted; never parsed as v3.
#[cfg_attr(kani, kani::proof)]
#[cfg_attr(kani, kani::stub(alloc::fmt::format, stub_format))]
#[cfg_attr(kani, kani::stub(crate::tree_store::page_store::page_manager::xxh3_checksum, stub_xxh3))]
#[cfg_attr(kani, kani::unwind(130))]
#[cfg_attr(verif_replay, test)]
fn c12_k4_version_gate() {
    let d: [u8; 128] = vk::any_bytes::<128>();
    vk::assume(d[0] != 3);
    let r = TransactionHeader::from_bytes(&d);
    match r {
        Ok(_) => panic!("C12-K4: a slot with version != 3 was parsed"),
        Err(DatabaseError::UpgradeRequired(v)) => { assert!((d[0] == 1 || d[0] == 2) && v == d[0]); }
        Err(DatabaseError::Storage(StorageError::Corrupted(_))) => { assert!(d[0] != 1 && d[0] != 2); }
        Err(_) => panic!("C12-K4: unexpected error kind"),
    }
}

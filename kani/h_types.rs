// Appended to src/types.rs.  C15: for every built-in key type the byte-level comparison orders encodings exactly as
// the values order, every value decodes to what was encoded, and separator(a, b) for a < b is an encoding s with
// a <= s < b and |s| <= |a|.
// Loop-free harnesses over the FULL domain are complete proofs (fixed-width types); harnesses for variable-width
// types are bounded (L bytes per element) and registered as such.
use super::*;
use crate::vk;

macro_rules! fixed_key {
    ($name:ident, $t:ty, $w:expr) => {
        #[cfg_attr(kani, kani::proof)]
        #[cfg_attr(verif_replay, test)]
        fn $name() {
            let a: $t = vk::any();
            let b: $t = vk::any();
            let ab = <$t as Value>::as_bytes(&a);
            let bb = <$t as Value>::as_bytes(&b);
            let (ab, bb): (&[u8], &[u8]) = (ab.as_ref(), bb.as_ref());
            assert!(ab.len() == $w && <$t as Value>::fixed_width() == Some($w));
            assert!(<$t as Key>::compare(ab, bb) == a.cmp(&b));
            assert!(<$t as Value>::from_bytes(ab) == a);
            if a < b {
                // fixed-width types never shorten: the separator is `a` itself
                let s = <$t as Key>::separator(ab, bb);
                assert!(&*s == ab);
            }
        }
    };
}

fixed_key!(c15_f_u8, u8, 1);
fixed_key!(c15_f_u16, u16, 2);
fixed_key!(c15_f_u32, u32, 4);
fixed_key!(c15_f_u64, u64, 8);
fixed_key!(c15_f_u128, u128, 16);
fixed_key!(c15_f_i8, i8, 1);
fixed_key!(c15_f_i16, i16, 2);
fixed_key!(c15_f_i32, i32, 4);
fixed_key!(c15_f_i64, i64, 8);
fixed_key!(c15_f_i128, i128, 16);
fixed_key!(c15_f_char, char, 3);

// bool: Kani mis-handles `<` / `cmp` on symbolic bools (probed: spurious failures), so the value order is stated
// through u8 (false = 0 < true = 1), which is what `bool: Ord` means.
#[cfg_attr(kani, kani::proof)]
#[cfg_attr(verif_replay, test)]
fn c15_f_bool() {
    let a: bool = vk::any();
    let b: bool = vk::any();
    let ab = <bool as Value>::as_bytes(&a);
    let bb = <bool as Value>::as_bytes(&b);
    assert!(ab.len() == 1 && <bool as Value>::fixed_width() == Some(1));
    assert!(<bool as Key>::compare(ab, bb) == u8::from(a).cmp(&u8::from(b)));
    assert!(<bool as Value>::from_bytes(ab) == a);
    if !a && b {
        let s = <bool as Key>::separator(ab, bb);
        assert!(&*s == ab);
    }
}

#[cfg_attr(kani, kani::proof)]
#[cfg_attr(verif_replay, test)]
fn c15_f_unit() {
    let ab = <() as Value>::as_bytes(&());
    assert!(ab.is_empty());
    assert!(<() as Key>::compare(ab, ab) == core::cmp::Ordering::Equal);
    assert!(<() as Value>::fixed_width() == Some(0));
}

fn any_opt<T: Copy>(v: T) -> Option<T> {
    if vk::any() { Some(v) } else { None }
}

macro_rules! option_fixed_key {
    ($name:ident, $t:ty, $w:expr) => {
        #[cfg_attr(kani, kani::proof)]
        #[cfg_attr(kani, kani::unwind(20))]
        #[cfg_attr(verif_replay, test)]
        fn $name() {
            let a: Option<$t> = any_opt(vk::any::<$t>());
            let b: Option<$t> = any_opt(vk::any::<$t>());
            let ab = <Option<$t> as Value>::as_bytes(&a);
            let bb = <Option<$t> as Value>::as_bytes(&b);
            assert!(ab.len() == $w + 1 && <Option<$t> as Value>::fixed_width() == Some($w + 1));
            assert!(<Option<$t> as Key>::compare(&ab, &bb) == a.cmp(&b));
            assert!(<Option<$t> as Value>::from_bytes(&ab) == a);
            if a < b {
                let s = <Option<$t> as Key>::separator(&ab, &bb);
                assert!(&*s == &ab[..]);
            }
        }
    };
}
option_fixed_key!(c15_f_option_u8, u8, 1);
option_fixed_key!(c15_f_option_u64, u64, 8);

// fixed arrays of fixed-width elements
#[cfg_attr(kani, kani::proof)]
#[cfg_attr(kani, kani::unwind(8))]
#[cfg_attr(verif_replay, test)]
fn c15_f_array_u16x2() {
    let a: [u16; 2] = [vk::any(), vk::any()];
    let b: [u16; 2] = [vk::any(), vk::any()];
    let ab = <[u16; 2] as Value>::as_bytes(&a);
    let bb = <[u16; 2] as Value>::as_bytes(&b);
    assert!(ab.len() == 4);
    assert!(<[u16; 2] as Key>::compare(&ab, &bb) == a.cmp(&b));
    assert!(<[u16; 2] as Value>::from_bytes(&ab) == a);
    if a < b {
        let s = <[u16; 2] as Key>::separator(&ab, &bb);
        assert!(&*s == &ab[..]);
    }
}

#[cfg_attr(kani, kani::proof)]
#[cfg_attr(kani, kani::unwind(8))]
#[cfg_attr(verif_replay, test)]
fn c15_f_byte_array4() {
    let a: [u8; 4] = vk::any_bytes::<4>();
    let b: [u8; 4] = vk::any_bytes::<4>();
    let (ra, rb) = (&a, &b);
    let ab: &[u8; 4] = <&[u8; 4] as Value>::as_bytes(&ra);
    let bb: &[u8; 4] = <&[u8; 4] as Value>::as_bytes(&rb);
    assert!(<&[u8; 4] as Key>::compare(ab, bb) == a.cmp(&b));
    assert!(<&[u8; 4] as Value>::from_bytes(ab) == &a);
    if a < b {
        let s = <&[u8; 4] as Key>::separator(ab, bb);
        assert!(&*s == &ab[..]);
    }
}

// tuples of fixed-width elements (impls live in tuple_types.rs)
#[cfg_attr(kani, kani::proof)]
#[cfg_attr(kani, kani::unwind(12))]
#[cfg_attr(verif_replay, test)]
fn c15_f_tuple_u8_u16() {
    let a: (u8, u16) = (vk::any(), vk::any());
    let b: (u8, u16) = (vk::any(), vk::any());
    let ab = <(u8, u16) as Value>::as_bytes(&a);
    let bb = <(u8, u16) as Value>::as_bytes(&b);
    let ab: &[u8] = ab.as_ref();
    let bb: &[u8] = bb.as_ref();
    assert!(<(u8, u16) as Key>::compare(ab, bb) == a.cmp(&b));
    assert!(<(u8, u16) as Value>::from_bytes(ab) == a);
    if a < b {
        let s = <(u8, u16) as Key>::separator(ab, bb);
        let s: &[u8] = &s;
        assert!(<(u8, u16) as Key>::compare(ab, s).is_le());
        assert!(<(u8, u16) as Key>::compare(s, bb).is_lt());
        assert!(s.len() <= ab.len());
    }
}

#[cfg_attr(kani, kani::proof)]
#[cfg_attr(kani, kani::unwind(20))]
#[cfg_attr(verif_replay, test)]
fn c15_f_tuple_u64_u64_u8() {
    let a: (u64, u64, u8) = (vk::any(), vk::any(), vk::any());
    let b: (u64, u64, u8) = (vk::any(), vk::any(), vk::any());
    let ab = <(u64, u64, u8) as Value>::as_bytes(&a);
    let bb = <(u64, u64, u8) as Value>::as_bytes(&b);
    let ab: &[u8] = ab.as_ref();
    let bb: &[u8] = bb.as_ref();
    assert!(<(u64, u64, u8) as Key>::compare(ab, bb) == a.cmp(&b));
    assert!(<(u64, u64, u8) as Value>::from_bytes(ab) == a);
}

// ---------------------------------------------------------------------------------------- variable width, bounded
const L: usize = 3;

fn any_slice(buf: &[u8; L]) -> &[u8] {
    let n: usize = vk::any();
    vk::assume(n <= L);
    &buf[..n]
}

// bounded L = 3: &[u8] compare is lexicographic byte order, separator contract, both branches covered
#[cfg_attr(kani, kani::proof)]
#[cfg_attr(kani, kani::unwind(6))]
#[cfg_attr(verif_replay, test)]
fn c15_b_bytes_separator_l3() {
    let a: [u8; L] = vk::any_bytes::<L>();
    let b: [u8; L] = vk::any_bytes::<L>();
    let left = any_slice(&a);
    let right = any_slice(&b);
    assert!(<&[u8] as Key>::compare(left, right) == left.cmp(right));
    assert!(<&[u8] as Value>::from_bytes(<&[u8] as Value>::as_bytes(&left)) == left);
    vk::assume(left < right);
    let s = <&[u8] as Key>::separator(left, right);
    let s: &[u8] = &s;
    assert!(left <= s);
    assert!(s < right);
    assert!(s.len() <= left.len());
    vk::cover!(s.len() < left.len());
    vk::cover!(s.len() == left.len());
}

// bounded L = 3: &str / String — result is valid UTF-8
#[cfg_attr(kani, kani::proof)]
#[cfg_attr(kani, kani::unwind(8))]
#[cfg_attr(verif_replay, test)]
fn c15_b_str_separator_l3() {
    let a: [u8; L] = vk::any_bytes::<L>();
    let b: [u8; L] = vk::any_bytes::<L>();
    let left = any_slice(&a);
    let right = any_slice(&b);
    vk::assume(core::str::from_utf8(left).is_ok());
    vk::assume(core::str::from_utf8(right).is_ok());
    assert!(<&str as Key>::compare(left, right) == left.cmp(right));
    vk::assume(left < right);
    let s = <&str as Key>::separator(left, right);
    let s: &[u8] = &s;
    assert!(core::str::from_utf8(s).is_ok());
    assert!(left <= s);
    assert!(s < right);
    assert!(s.len() <= left.len());
    let s2 = <String as Key>::separator(left, right);
    assert!(&*s2 == s);
    vk::cover!(s.len() < left.len());
}

// bounded: Option<&[u8]> keys: tag byte + payload of length <= 2
#[cfg_attr(kani, kani::proof)]
#[cfg_attr(kani, kani::unwind(12))]
#[cfg_attr(verif_replay, test)]
fn c15_b_option_bytes_separator_l2() {
    let a: [u8; 3] = vk::any_bytes::<3>();
    let b: [u8; 3] = vk::any_bytes::<3>();
    let la: usize = vk::any();
    let lb: usize = vk::any();
    vk::assume(1 <= la && la <= 3 && 1 <= lb && lb <= 3);
    vk::assume(a[0] <= 1 && b[0] <= 1);
    vk::assume(a[0] == 1 || la == 1);
    vk::assume(b[0] == 1 || lb == 1);
    let left = &a[..la];
    let right = &b[..lb];
    // model order: None < Some(x); Some ordered by payload bytes
    let ma: Option<&[u8]> = if a[0] == 0 { None } else { Some(&a[1..la]) };
    let mb: Option<&[u8]> = if b[0] == 0 { None } else { Some(&b[1..lb]) };
    assert!(<Option<&[u8]> as Key>::compare(left, right) == ma.cmp(&mb));
    vk::assume(ma < mb);
    let s = <Option<&[u8]> as Key>::separator(left, right);
    let s: &[u8] = &s;
    assert!(<Option<&[u8]> as Key>::compare(left, s).is_le());
    assert!(<Option<&[u8]> as Key>::compare(s, right).is_lt());
    assert!(s.len() <= left.len());
    assert!(s.len() >= 1 && s[0] <= 1 && (s[0] == 1 || s.len() == 1));
    vk::cover!(s.len() < left.len());
}

// R4's assumed spec (Verus unit types_sep): the iterator chain computes the longest common prefix length
#[cfg_attr(kani, kani::proof)]
#[cfg_attr(kani, kani::unwind(8))]
#[cfg_attr(verif_replay, test)]
fn c15_b_common_prefix_spec_l3() {
    let a: [u8; L] = vk::any_bytes::<L>();
    let b: [u8; L] = vk::any_bytes::<L>();
    let left = any_slice(&a);
    let right = any_slice(&b);
    let n = left.iter().zip(right).take_while(|(x, y)| x == y).count();
    assert!(n <= left.len() && n <= right.len());
    let i: usize = vk::any();
    vk::assume(i < n);
    assert!(left[i] == right[i]);
    if n < left.len() && n < right.len() {
        assert!(left[n] != right[n]);
    }
}

// T6/T7 (Verus unit types_sep): str ordering is byte-wise; a prefix of valid UTF-8 cut where the next byte is not a
// continuation byte is valid UTF-8
#[cfg_attr(kani, kani::proof)]
#[cfg_attr(kani, kani::unwind(8))]
#[cfg_attr(verif_replay, test)]
fn c15_b_utf8_prefix_axiom_l4() {
    let a: [u8; 4] = vk::any_bytes::<4>();
    let la: usize = vk::any();
    vk::assume(la <= 4);
    let s = &a[..la];
    vk::assume(core::str::from_utf8(s).is_ok());
    let n: usize = vk::any();
    vk::assume(n <= la);
    vk::assume(n == la || s[n] & 0b1100_0000 != 0b1000_0000);
    assert!(core::str::from_utf8(&s[..n]).is_ok());
}

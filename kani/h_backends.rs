// Harnesses appended to src/tree_store/page_store/backends.rs.
// C20-L3: ReadOnlyBackend forwards len/read/close once and never reaches the inner backend for a mutation.
use super::*;
use crate::vk;
use alloc::sync::Arc;
use core::sync::atomic::{AtomicU32, Ordering};

#[derive(Debug)]
struct Mock {
    reads: Arc<AtomicU32>,
    muts: Arc<AtomicU32>,
    closes: Arc<AtomicU32>,
}

impl StorageBackend for Mock {
    fn len(&self) -> Result<u64, Error> { self.reads.fetch_add(1, Ordering::Relaxed); Ok(vk::any()) }
    fn read(&self, _o: u64, _out: &mut [u8]) -> Result<(), Error> { self.reads.fetch_add(1, Ordering::Relaxed); Ok(()) }
    fn set_len(&self, _l: u64) -> Result<(), Error> { self.muts.fetch_add(1, Ordering::Relaxed); Ok(()) }
    fn sync_data(&self) -> Result<(), Error> { self.muts.fetch_add(1, Ordering::Relaxed); Ok(()) }
    fn write(&self, _o: u64, _d: &[u8]) -> Result<(), Error> { self.muts.fetch_add(1, Ordering::Relaxed); Ok(()) }
    fn close(&self) -> Result<(), Error> { self.closes.fetch_add(1, Ordering::Relaxed); Ok(()) }
}

fn mk() -> (ReadOnlyBackend, Arc<AtomicU32>, Arc<AtomicU32>, Arc<AtomicU32>) {
    let reads = Arc::new(AtomicU32::new(0));
    let muts = Arc::new(AtomicU32::new(0));
    let closes = Arc::new(AtomicU32::new(0));
    let b = ReadOnlyBackend::new(Box::new(Mock { reads: reads.clone(), muts: muts.clone(), closes: closes.clone() }));
    (b, reads, muts, closes)
}

#[cfg_attr(kani, kani::proof)]
#[cfg_attr(verif_replay, test)]
fn c20_l3_readonly_forwards_reads() {
    let (b, reads, muts, closes) = mk();
    let op: u8 = vk::any();
    vk::assume(op < 3);
    let mut buf = [0u8; 4];
    match op {
        0 => { let _ = b.len(); }
        1 => { let _ = b.read(vk::any(), &mut buf); }
        _ => { let _ = b.close(); }
    }
    assert!(muts.load(Ordering::Relaxed) == 0);
    assert!(reads.load(Ordering::Relaxed) == if op < 2 { 1 } else { 0 });
    assert!(closes.load(Ordering::Relaxed) == if op == 2 { 1 } else { 0 });
    core::mem::forget(b);
}

// A mutation through the read-only wrapper must never reach the inner backend: the wrapper diverges
// (`unreachable!`) first, so the assertion after the call is never reached with muts != 0, and the
// mock's own counter assertion (checked inside the mock on entry) never fires.
#[derive(Debug)]
struct Tripwire;
impl StorageBackend for Tripwire {
    fn len(&self) -> Result<u64, Error> { Ok(0) }
    fn read(&self, _o: u64, _out: &mut [u8]) -> Result<(), Error> { Ok(()) }
    fn set_len(&self, _l: u64) -> Result<(), Error> { panic!("C20-L3: set_len reached the backend of a read-only database") }
    fn sync_data(&self) -> Result<(), Error> { panic!("C20-L3: sync_data reached the backend of a read-only database") }
    fn write(&self, _o: u64, _d: &[u8]) -> Result<(), Error> { panic!("C20-L3: write reached the backend of a read-only database") }
}

#[cfg_attr(kani, kani::proof)]
#[cfg_attr(verif_replay, test)]
fn c20_l3_readonly_blocks_mutation() {
    let b = ReadOnlyBackend::new(Box::new(Tripwire));
    let op: u8 = vk::any();
    vk::assume(op < 3);
    let buf = [0u8; 4];
    let r = match op {
        0 => b.set_len(vk::any()),
        1 => b.sync_data(),
        _ => b.write(vk::any(), &buf),
    };
    // reaching this point means the wrapper forwarded (or silently swallowed) a mutation
    core::mem::forget(r);
    core::mem::forget(b);
}

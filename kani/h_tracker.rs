// Appended to src/transaction_tracker.rs.  C01-K6: transaction ids strictly increase; reserving a repair id
// never lowers the next id.  C15 for the internal fixed-width key SavepointId.
use super::*;
use crate::vk;

#[cfg_attr(kani, kani::proof)]
#[cfg_attr(verif_replay, test)]
fn c01_k6_ids_increase() {
    let raw: u64 = vk::any();
    vk::assume(raw < u64::MAX);
    let t = TransactionId::new(raw);
    assert!(t.next() > t);
    assert!(t.next().raw_id() == raw + 1);
    let mut m = t;
    let r = m.increment();
    assert!(r == t.next() && m == r);
}

#[cfg_attr(kani, kani::proof)]
#[cfg_attr(kani, kani::unwind(8))]
#[cfg_attr(verif_replay, test)]
fn c01_k6_reserve_never_lowers() {
    let start: u64 = vk::any();
    let tracker = TransactionTracker::new(TransactionId::new(start));
    let a: u64 = vk::any();
    let before = tracker.state.lock().unwrap().next_transaction_id;
    vk::assume(before.raw_id() < u64::MAX && a < u64::MAX);
    tracker.reserve_repair_transaction_id(TransactionId::new(a));
    let after = tracker.state.lock().unwrap().next_transaction_id;
    assert!(after >= before);
    assert!(after > TransactionId::new(a) || after >= TransactionId::new(a));
    vk::cover!(after > before);
    vk::cover!(after == before);
    core::mem::forget(tracker);
}

#[cfg_attr(kani, kani::proof)]
#[cfg_attr(verif_replay, test)]
fn c15_f_savepoint_id() {
    let a = SavepointId(vk::any());
    let b = SavepointId(vk::any());
    let ab = <SavepointId as Value>::as_bytes(&a);
    let bb = <SavepointId as Value>::as_bytes(&b);
    assert!(<SavepointId as Key>::compare(&ab, &bb) == a.cmp(&b));
    assert!(<SavepointId as Value>::from_bytes(&ab) == a);
    assert!(<SavepointId as Value>::fixed_width() == Some(8));
}

// Appended to src/tree_store/page_store/page_manager.rs.  BOUNDED, exhaustive NATIVE check of the contracts of the REAL UnpersistedState
// functions (HashSet / BTreeMap / iterator-adapter bodies: outside Verus' and CBMC's reach) against a ghost model kept beside it.
//
// Ghost model: pages (set), allocs: transaction -> set of pages, freed: transaction -> list of pages, post (set).
// Representation invariant (checked after every call): allocation_txn is exactly the reverse index of allocations; no transaction
// maps to an empty set or an empty list; post_commit_allocations is a subset of pages.
// Per-function contract, with the full frame (everything not named is unchanged):
//   extend(S)                 pages += S
//   claim(p)                  returns p in pages; if so pages -= p, post -= p, and p leaves the one allocs record naming it
//   record_allocations(t, S)  requires no page of S recorded under another transaction; allocs[t] += S
//   take_allocations()        returns allocs; allocs = {}
//   allocations_after(t)      == union of allocs[u] for u > t          (C06/C07: a restore to t frees exactly the later allocations)
//   record_data_freed(t, L)   freed[t] ++= L
//   data_freed_in_range(a,b)  == [(u, freed[u]) | a <= u < b] ascending; [] when a >= b
//   replace_data_freed(t, L)  freed[t] = L (dropped when L is empty)
//   take_data_freed()         returns freed; freed = {}
//   drop_data_freed_after(t)  freed -= {u | u > t}
//   pages_pending_free()      == concatenation of freed
//   post_commit_allocations (field, as record_/take_post_commit_allocations use it): requires S subset of pages; post += S / take
//   clear()                   everything empty
// Bound: every sequence of at most DEPTH calls over NP pages and transaction ids {1,2,3}.
use super::*;
extern crate std;
use std::collections::{BTreeMap as M, BTreeSet as S};
use std::vec::Vec as V;

#[derive(Clone, Default)]
struct Model {
    pages: S<u32>,
    allocs: M<u64, S<u32>>,
    freed: M<u64, V<u32>>,
    post: S<u32>,
}

#[derive(Clone, Copy, Debug)]
enum Op {
    Extend(u8),
    Claim(u32),
    RecAlloc(u64, u8),
    TakeAlloc,
    RecFreed(u64, u8),
    ReplaceFreed(u64, u8),
    TakeFreed,
    DropFreedAfter(u64),
    PostCommit(u8),
    TakePost,
    Clear,
}

fn pn(i: u32) -> PageNumber {
    PageNumber::new(0, i, 0)
}

fn subset(mask: u8, np: u32) -> V<u32> {
    (0..np).filter(|i| mask & (1 << i) != 0).collect()
}

fn all_ops(np: u32) -> V<Op> {
    let mut v = V::new();
    let masks = 1u8 << np;
    for m in 1..masks {
        v.push(Op::Extend(m));
        v.push(Op::PostCommit(m));
    }
    for p in 0..np {
        v.push(Op::Claim(p));
    }
    for t in 1..=3 {
        for m in 0..masks {
            v.push(Op::RecAlloc(t, m));
            v.push(Op::RecFreed(t, m));
            v.push(Op::ReplaceFreed(t, m));
        }
    }
    for t in 0..=3 {
        v.push(Op::DropFreedAfter(t));
    }
    v.push(Op::TakeAlloc);
    v.push(Op::TakeFreed);
    v.push(Op::TakePost);
    v.push(Op::Clear);
    v
}

fn pre(m: &Model, op: Op, np: u32) -> bool {
    match op {
        Op::RecAlloc(t, mask) => subset(mask, np).iter().all(|p| m.allocs.iter().all(|(u, s)| *u == t || !s.contains(p))),
        Op::PostCommit(mask) => subset(mask, np).iter().all(|p| m.pages.contains(p)),
        _ => true,
    }
}

fn apply(u: &mut UnpersistedState, m: &mut Model, op: Op, np: u32, ctx: &dyn Fn() -> std::string::String) {
    match op {
        Op::Extend(mask) => {
            let mut s = PageNumberHashSet::default();
            for p in subset(mask, np) {
                s.insert(pn(p));
                m.pages.insert(p);
            }
            u.extend(s);
        }
        Op::Claim(p) => {
            let got = u.claim(pn(p));
            let want = m.pages.remove(&p);
            assert!(got == want, "claim({p}) returned {got}, contract says {want} [{}]", ctx());
            if want {
                m.post.remove(&p);
                for s in m.allocs.values_mut() {
                    s.remove(&p);
                }
                m.allocs.retain(|_, s| !s.is_empty());
            }
        }
        Op::RecAlloc(t, mask) => {
            u.record_allocations(TransactionId::new(t), subset(mask, np).into_iter().map(pn));
            if mask != 0 {
                m.allocs.entry(t).or_default().extend(subset(mask, np));
            }
        }
        Op::TakeAlloc => {
            let got: M<u64, S<u32>> = u.take_allocations().into_iter().map(|(t, s)| (t.raw_id(), s.into_iter().map(|p| p.page_index).collect())).collect();
            let want = core::mem::take(&mut m.allocs);
            assert!(got == want, "take_allocations returned {:?}, contract says {:?} [{}]", got, want, ctx());
        }
        Op::RecFreed(t, mask) => {
            u.record_data_freed(TransactionId::new(t), subset(mask, np).into_iter().map(pn).collect());
            if mask != 0 {
                m.freed.entry(t).or_default().extend(subset(mask, np));
            }
        }
        Op::ReplaceFreed(t, mask) => {
            u.replace_data_freed(TransactionId::new(t), subset(mask, np).into_iter().map(pn).collect());
            if mask == 0 {
                m.freed.remove(&t);
            } else {
                m.freed.insert(t, subset(mask, np));
            }
        }
        Op::TakeFreed => {
            let got: M<u64, V<u32>> = u.take_data_freed().into_iter().map(|(t, s)| (t.raw_id(), s.into_iter().map(|p| p.page_index).collect())).collect();
            let want = core::mem::take(&mut m.freed);
            assert!(got == want, "take_data_freed returned {:?}, contract says {:?} [{}]", got, want, ctx());
        }
        Op::DropFreedAfter(t) => {
            u.drop_data_freed_after(TransactionId::new(t));
            m.freed.retain(|k, _| *k <= t);
        }
        Op::PostCommit(mask) => {
            u.post_commit_allocations.extend(subset(mask, np).into_iter().map(pn));
            m.post.extend(subset(mask, np));
        }
        Op::TakePost => {
            let got: S<u32> = core::mem::take(&mut u.post_commit_allocations).into_iter().map(|p| p.page_index).collect();
            let want = core::mem::take(&mut m.post);
            assert!(got == want, "post-commit allocations {:?}, contract says {:?} [{}]", got, want, ctx());
        }
        Op::Clear => {
            u.clear();
            *m = Model::default();
        }
    }
}

fn observe(u: &UnpersistedState, m: &Model, np: u32, ctx: &dyn Fn() -> std::string::String) {
    // abstraction of the real state == model
    let pages: S<u32> = u.pages.iter().map(|p| p.page_index).collect();
    assert!(pages == m.pages, "pages {:?}, contract says {:?} [{}]", pages, m.pages, ctx());
    let allocs: M<u64, S<u32>> = u.allocations.iter().map(|(t, s)| (t.raw_id(), s.iter().map(|p| p.page_index).collect())).collect();
    assert!(allocs == m.allocs, "allocations {:?}, contract says {:?} [{}]", allocs, m.allocs, ctx());
    let freed: M<u64, V<u32>> = u.data_freed.iter().map(|(t, s)| (t.raw_id(), s.iter().map(|p| p.page_index).collect())).collect();
    assert!(freed == m.freed, "data_freed {:?}, contract says {:?} [{}]", freed, m.freed, ctx());
    let post: S<u32> = u.post_commit_allocations.iter().map(|p| p.page_index).collect();
    assert!(post == m.post, "post_commit_allocations {:?}, contract says {:?} [{}]", post, m.post, ctx());
    // representation invariant
    let mut rev: M<u32, u64> = M::new();
    for (t, s) in &m.allocs {
        assert!(!s.is_empty(), "empty allocation record kept for transaction {t} [{}]", ctx());
        for p in s {
            assert!(rev.insert(*p, *t).is_none(), "page {p} recorded under two transactions [{}]", ctx());
        }
    }
    let real_rev: M<u32, u64> = u.allocation_txn.iter().map(|(p, t)| (p.page_index, t.raw_id())).collect();
    assert!(real_rev == rev, "allocation_txn {:?} is not the reverse index {:?} of allocations [{}]", real_rev, rev, ctx());
    assert!(m.freed.values().all(|l| !l.is_empty()), "empty data_freed record kept [{}]", ctx());
    assert!(post.is_subset(&pages), "post_commit_allocations {:?} not a subset of pages {:?} [{}]", post, pages, ctx());
    // observers
    for p in 0..np {
        assert!(u.contains(pn(p)) == m.pages.contains(&p), "contains({p}) [{}]", ctx());
    }
    for t in 0u64..=3 {
        let mut got: V<u32> = u.allocations_after(TransactionId::new(t)).into_iter().map(|p| p.page_index).collect();
        got.sort_unstable();
        let want: V<u32> = m.allocs.iter().filter(|(k, _)| **k > t).flat_map(|(_, s)| s.iter().copied()).collect::<S<u32>>().into_iter().collect();
        assert!(got == want, "allocations_after({t}) = {:?}, contract says {:?} [{}]", got, want, ctx());
    }
    for a in 0u64..=4 {
        for b in 0u64..=4 {
            let got: V<(u64, V<u32>)> = u.data_freed_in_range(TransactionId::new(a), TransactionId::new(b)).into_iter()
                .map(|(t, l)| (t.raw_id(), l.into_iter().map(|p| p.page_index).collect())).collect();
            let want: V<(u64, V<u32>)> = m.freed.iter().filter(|(k, _)| a <= **k && **k < b).map(|(k, l)| (*k, l.clone())).collect();
            assert!(got == want, "data_freed_in_range({a},{b}) = {:?}, contract says {:?} [{}]", got, want, ctx());
        }
    }
    let got: V<u32> = u.pages_pending_free().into_iter().map(|p| p.page_index).collect();
    let want: V<u32> = m.freed.values().flatten().copied().collect();
    assert!(got == want, "pages_pending_free = {:?}, contract says {:?} [{}]", got, want, ctx());
}

fn run_seq(seq: &[Op], np: u32) -> bool {
    let mut u = UnpersistedState::default();
    let mut m = Model::default();
    for (k, op) in seq.iter().enumerate() {
        if !pre(&m, *op, np) {
            return false;
        }
        let ctx = || std::format!("after call {} of {:?}", k + 1, seq);
        apply(&mut u, &mut m, *op, np, &ctx);
        if k + 1 == seq.len() {
            observe(&u, &m, np, &ctx);
        }
    }
    true
}

fn explore(depth: usize, np: u32) -> u64 {
    let ops = all_ops(np);
    let mut n = 0u64;
    let mut seq: V<Op> = V::new();
    fn rec(ops: &[Op], seq: &mut V<Op>, depth: usize, np: u32, n: &mut u64) {
        if seq.len() == depth {
            return;
        }
        for op in ops {
            seq.push(*op);
            if run_seq(seq, np) {
                *n += 1;
                rec(ops, seq, depth, np, n);
            }
            seq.pop();
        }
    }
    rec(&ops, &mut seq, depth, np, &mut n);
    n
}

#[cfg_attr(verif_replay, test)]
fn xb_unpersisted_contracts_depth3() {
    let mut n = 0;
    for d in 1..=3 { n = explore(d, 3); } // shortest failing sequence first
    assert!(n > 100_000, "vacuous: only {n} call sequences ran");
}

#[cfg_attr(verif_replay, test)]
fn xb_unpersisted_contracts_depth4() {
    let n = explore(4, 2);
    assert!(n > 1_000_000, "vacuous: only {n} call sequences ran");
}

s=open('rg.rs').read()
def rep(a,b):
    global s
    assert s.count(a)==1,(s.count(a),a)
    s=s.replace(a,b)
rep("        for i in 0..=order {\n            self.order_trackers[i].clear(region);", """        for i in iter: 0..=order
            invariant
                self.wf(), self.regions() == old(self).regions(), order < self.order_trackers@.len(),
                self.order_trackers@.len() == old(self).order_trackers@.len(), region < self.regions(),
                forall|o: int, r: int| 0 <= o < old(self).order_trackers@.len() && 0 <= r < old(self).regions() ==>
                    #[trigger] self.may_be_free(o, r) == (old(self).may_be_free(o, r) || (o < i && r == region)),
        {
            let ghost pre = *self;
            assert(self.order_trackers@[i as int].wf());
            self.order_trackers[i].clear(region);
            proof {
                assert forall|o: int| 0 <= o < self.order_trackers@.len() && o != i implies #[trigger] self.order_trackers@[o] == pre.order_trackers@[o] by {}
                assert forall|o: int, r: int| 0 <= o < old(self).order_trackers@.len() && 0 <= r < old(self).regions() implies
                    #[trigger] self.may_be_free(o, r) == (old(self).may_be_free(o, r) || (o < i + 1 && r == region)) by {
                    assert(pre.may_be_free(o, r) == (old(self).may_be_free(o, r) || (o < i && r == region)));
                }
            }""".replace("            self.order_trackers[i].clear(region);\n            proof","            self.order_trackers[i].clear(region);\n            proof"))
# the original body line remains after our inserted text? we replaced "for ... {\n clear" fully, so ensure no duplicate
rep("        for i in order..self.order_trackers.len() {\n            self.order_trackers[i].set(region);", """        let ghost n = self.order_trackers@.len();
        for i in iter: order..self.order_trackers.len()
            invariant
                self.wf(), self.regions() == old(self).regions(), n == old(self).order_trackers@.len(),
                self.order_trackers@.len() == n, region < self.regions(), order <= n,
                forall|o: int, r: int| 0 <= o < n && 0 <= r < old(self).regions() ==>
                    #[trigger] self.may_be_free(o, r) == (old(self).may_be_free(o, r) && !(order <= o < i && r == region)),
        {
            let ghost pre = *self;
            assert(self.order_trackers@[i as int].wf());
            self.order_trackers[i].set(region);
            proof {
                assert forall|o: int| 0 <= o < self.order_trackers@.len() && o != i implies #[trigger] self.order_trackers@[o] == pre.order_trackers@[o] by {}
                assert forall|o: int, r: int| 0 <= o < n && 0 <= r < old(self).regions() implies
                    #[trigger] self.may_be_free(o, r) == (old(self).may_be_free(o, r) && !(order <= o < i + 1 && r == region)) by {
                    assert(pre.may_be_free(o, r) == (old(self).may_be_free(o, r) && !(order <= o < i && r == region)));
                }
            }""")
open('rg.rs','w').write(s)

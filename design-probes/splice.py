import sys,re
def splice(body, specs):
    """specs: list of (anchor_text, retname_or_None, spec_text). anchor_text must be unique and be the start of the fn item."""
    for anchor, spec in specs:
        assert body.count(anchor)==1, (body.count(anchor), anchor)
        i=body.index(anchor)
        depth=0;k=i
        while True:
            c=body[k]
            if c=='(':depth+=1
            elif c==')':
                depth-=1
                if depth==0:break
            k+=1
        b=body.index('{',k)
        ret=body[k+1:b]
        if '->' in ret:
            t=ret.split('->',1)[1].strip()
            ret=' -> (r: %s)\n' % t
        else:
            ret='\n'
        body=body[:k+1]+ret+spec.rstrip()+"\n    "+body[b:]
    return body
def insert_before(body, anchor, text, nth=0):
    idx=-1
    for _ in range(nth+1):
        idx=body.index(anchor, idx+1)
    return body[:idx]+text+body[idx:]

pub proof fn lemma_anc_unique(k: int, x: int, o: int, q1: int, q2: int)
    requires is_anc(k, x, o, q1), is_anc(k, x, o, q2),
    ensures q1 == q2,
    decreases o - k,
{
    if k < o { lemma_anc_unique(k + 1, x / 2, o, q1, q2); }
}

impl BS {
    // nothing at or below an uncovered block with nothing free below it is covered
    pub proof fn lemma_not_cov_below(&self, k: int, x: int, o: int, q: int)
        requires is_anc(k, x, o, q), !self.cov(o, q), self.no_free_below(o, q), 0 <= k,
        ensures !self.cov(k, x),
        decreases o - k,
    {
        if k < o {
            self.lemma_not_cov_below(k + 1, x / 2, o, q);
            if self.a(k, x) { assert(!is_anc(k, x, o, q)); }
        }
    }

    // view clause when exactly the free block (ko, qo) is removed (alloc case A, record_alloc "set" case)
    pub proof fn lemma_view_removed(o: BS, f: BS, ko: int, qo: int)
        requires o.added(f, ko, qo), o.inv1(), !f.cov(ko, qo),
        ensures forall|k: int, x: int| 0 <= k <= ko ==> #[trigger] f.cov(k, x) == (o.cov(k, x) && !is_anc(k, x, ko, qo)),
    {
        o.lemma_free_block_no_free_below(ko, qo);
        assert(f.no_free_below(ko, qo)) by {
            assert forall|j: int, y: int| #[trigger] f.a(j, y) && j < ko implies !is_anc(j, y, ko, qo) by {
                assert(o.a(j, y));
            }
        }
        assert forall|k: int, x: int| 0 <= k <= ko implies #[trigger] f.cov(k, x) == (o.cov(k, x) && !is_anc(k, x, ko, qo)) by {
            o.lemma_cov_added(f, ko, qo, k, x);
            if is_anc(k, x, ko, qo) { f.lemma_not_cov_below(k, x, ko, qo); }
        }
    }

    // view clause for the split case: s1 = s minus everything under (ko+1, u); f = s1 plus block (ko, give); keep = buddy of give
    pub proof fn lemma_view_split(s: BS, s1: BS, f: BS, ko: int, u: int, keep: int)
        requires
            0 <= ko, 0 <= keep, keep / 2 == u, f.added(s1, ko, sbuddy(keep)), s.cov(ko + 1, u),
            forall|k: int, x: int| 0 <= k <= ko + 1 ==> #[trigger] s1.cov(k, x) == (s.cov(k, x) && !is_anc(k, x, ko + 1, u)),
        ensures
            forall|k: int, x: int| 0 <= k <= ko ==> #[trigger] f.cov(k, x) == (s.cov(k, x) && !is_anc(k, x, ko, keep)),
    {
        let give = sbuddy(keep);
        assert forall|k: int, x: int| 0 <= k <= ko implies #[trigger] f.cov(k, x) == (s.cov(k, x) && !is_anc(k, x, ko, keep)) by {
            f.lemma_cov_added(s1, ko, give, k, x);
            lemma_anc_split(k, x, ko, keep);
            assert(s1.cov(k, x) == (s.cov(k, x) && !is_anc(k, x, ko + 1, u)));
            if is_anc(k, x, ko, give) {
                lemma_anc_up(k, x, ko, give);
                assert(give / 2 == u);
                s.lemma_cov_up(k, x, ko + 1, u);
                if is_anc(k, x, ko, keep) { lemma_anc_unique(k, x, ko, give, keep); }
            }
        }
    }
}

    fn allocators_mut(&mut self) -> &mut Allocators {
        self.allocators
            .as_mut()
            .expect("allocators have not been loaded yet")
    }

    fn get_region_mut(&mut self, region: u32) -> &mut BuddyAllocator {
        &mut self.allocators_mut().region_allocators[region as usize]
    }

    fn get_region_tracker_mut(&mut self) -> &mut RegionTracker {
        &mut self.allocators_mut().region_tracker
    }

=====
    fn allocate_helper_retry(
        state: &mut InMemoryState,
        required_order: u8,
        lowest: bool,
    ) -> Result<Option<PageNumber>> {
        loop {
            let Some(candidate_region) = state.get_region_tracker_mut().find_free(required_order)
            else {
                return Ok(None);
            };
            let region = state.get_region_mut(candidate_region);
            let r = if lowest {
                region.alloc_lowest(required_order)
            } else {
                region.alloc(required_order)
            };
            if let Some(page) = r {
                return Ok(Some(PageNumber::new(
                    candidate_region,
                    page,
                    required_order,
                )));
            }
            // Mark the region, if it's full
            state
                .get_region_tracker_mut()
                .mark_full(required_order, candidate_region);
        }
    }

=====
    pub(crate) fn new(region: u32, page_index: u32, page_order: u8) -> Self {
        debug_assert!(region <= 0x000F_FFFF);
        debug_assert!(page_index <= MAX_PAGE_INDEX);
        debug_assert!(page_order <= MAX_MAX_PAGE_ORDER);
        Self {
            region,
            page_index,
            page_order,
        }
    }
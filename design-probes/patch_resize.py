s=open('u64.rs').read()
old_sig="    pub fn resize(&mut self, new_len: u32, full: bool) {"
assert s.count(old_sig)==1
s=s.replace(old_sig, """    pub fn resize(&mut self, new_len: u32, full: bool)
        requires old(self).wf(), full,
            new_len < old(self).len ==> forall|i: int| new_len <= i < old(self).len ==> #[trigger] old(self).bit_at(i),
        ensures final(self).wf(), final(self).len == new_len, final(self).data@.len() >= old(self).data@.len(),
            forall|i: int| 0 <= i < old(self).len && i < new_len ==> #[trigger] final(self).bit_at(i) == old(self).bit_at(i),
            forall|i: int| old(self).len <= i < final(self).cap() ==> #[trigger] final(self).bit_at(i),
            forall|w: int| 0 <= w < old(self).data@.len() && (w + 1) * 64 <= old(self).len ==> #[trigger] final(self).data@[w] == old(self).data@[w],
    {""")
old_loop="        for word in start_word..=end_word {\n"
assert s.count(old_loop)==1
s=s.replace(old_loop, """        for word in iter: start_word..=end_word
            invariant
                self.len == new_len, old_len == old(self).len, old_len < new_len, full,
                start_word == old_len / 64, end_word == (new_len - 1) / 64,
                self.data@.len() >= old(self).data@.len(), self.cap() >= new_len,
                forall|i: int| 0 <= i < old_len ==> #[trigger] self.bit_at(i) == old(self).bit_at(i),
                forall|i: int| old_len <= i < self.cap() ==> #[trigger] self.bit_at(i),
                forall|w: int| 0 <= w < old(self).data@.len() && (w + 1) * 64 <= old_len ==> #[trigger] self.data@[w] == old(self).data@[w],
        {
""")
open('u64.rs','w').write(s)
s=open('u64.rs').read()
a="        let old_len = self.len;\n        self.len = new_len;\n"
assert s.count(a)==1
s=s.replace(a, a+"""        proof {
            lemma_wbit_max(u64::MAX);
            assert forall|i: int| old(self).len <= i < self.cap() implies #[trigger] self.bit_at(i) by {
                if i < old(self).cap() {
                    assert(self.data@[i / 64] == old(self).data@[i / 64]);
                    assert(old(self).bit_at(i));
                } else {
                    assert(self.data@[i / 64] == u64::MAX);
                }
            }
            assert forall|i: int| 0 <= i < old(self).cap() implies #[trigger] self.bit_at(i) == old(self).bit_at(i) by {
                assert(self.data@[i / 64] == old(self).data@[i / 64]);
            }
        }
""")
s=s.replace(a+"        proof {", "        proof {") if False else s
b="            if full {\n                *slot |= mask;\n            } else {\n                *slot &= !mask;\n            }\n"
assert s.count(b)==1
s=s.replace("            let slot = &mut self.data[word as usize];\n", "            let ghost pre = *self;\n            let slot = &mut self.data[word as usize];\n")
s=s.replace(b, b+"""            proof {
                let w0 = pre.data@[word as int];
                assert forall|j: u64| j < 64 implies #[trigger] wbit(w0 | mask, j) == (wbit(w0, j) || wbit(mask, j)) by {
                    assert((((w0 | mask) >> j) & 1u64 == 1u64) <==> (((w0 >> j) & 1u64 == 1u64) || ((mask >> j) & 1u64 == 1u64))) by (bit_vector)
                        requires j < 64;
                }
                assert forall|i: int| 0 <= i < old_len implies #[trigger] self.bit_at(i) == old(self).bit_at(i) by {
                    assert(pre.bit_at(i) == old(self).bit_at(i));
                    if i / 64 == word as int {
                        assert(!wbit(mask, (i % 64) as u64));
                    }
                }
                assert forall|i: int| old_len <= i < self.cap() implies #[trigger] self.bit_at(i) by {
                    assert(pre.bit_at(i));
                }
            }
""")
open('u64.rs','w').write(s)

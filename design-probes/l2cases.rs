impl BS {
    pub proof fn lemma_alloc_case_a(o: BS, f: BS, k0: int, x: int)
        requires
            o.inv1(), o.inv2(), f.m == o.m, 0 <= k0 <= o.m,
            forall|k: int| 0 <= k <= o.m && k != k0 ==> #[trigger] f.fs[k] == o.fs[k],
            f.fs[k0].leaf().len == o.fs[k0].leaf().len, 0 <= x < o.n(k0),
            !o.fs[k0].leaf().bit_at(x), f.fs[k0].leaf().bit_at(x),
            forall|j: int| 0 <= j < o.n(k0) && j != x ==> #[trigger] f.fs[k0].leaf().bit_at(j) == o.fs[k0].leaf().bit_at(j),
        ensures f.inv1(), f.inv2(), o.cov(k0, x), !f.cov(k0, x),
            forall|k: int, y: int| 0 <= k <= k0 ==> #[trigger] f.cov(k, y) == (o.cov(k, y) && !is_anc(k, y, k0, x)),
            forall|j: int, y: int| #[trigger] f.a(j, y) ==> o.cov(j, y),
    {
        assert forall|k: int| 0 <= k <= o.m implies #[trigger] f.n(k) == o.n(k) by {}
        assert(o.added(f, k0, x)) by {
            assert forall|k: int, q: int| !(k == k0 && q == x) implies #[trigger] o.a(k, q) == f.a(k, q) by {
                if k == k0 { if 0 <= q < o.n(k0) { assert(f.fs[k0].leaf().bit_at(q) == o.fs[k0].leaf().bit_at(q)); } }
            }
        }
        assert(f.fewer(o)) by {
            assert forall|k: int, q: int| #[trigger] f.a(k, q) implies o.a(k, q) by {
                if k == k0 { if q != x { assert(f.fs[k0].leaf().bit_at(q) == o.fs[k0].leaf().bit_at(q)); } }
            }
        }
        f.lemma_fewer_keeps_inv(o);
        assert(o.a(k0, x));
        assert(f.same_from(o, k0 + 1)) by {
            assert forall|k: int, q: int| k0 + 1 <= k implies #[trigger] f.a(k, q) == o.a(k, q) by {}
        }
        f.lemma_cov_frame(o, k0 + 1, k0 + 1, x / 2);
        assert(!o.cov(k0 + 1, x / 2));
        assert(!f.a(k0, x));
        BS::lemma_view_removed(o, f, k0, x);
        assert forall|j: int, y: int| #[trigger] f.a(j, y) implies o.cov(j, y) by { assert(o.a(j, y)); }
    }

    pub proof fn lemma_alloc_case_b(s: BS, s1: BS, f: BS, k0: int, u: int)
        requires
            s.inv1(), s1.inv1(), s1.inv2(), s1.m == s.m, f.m == s.m, 0 <= k0 < s.m, 0 <= u,
            forall|k: int| 0 <= k <= k0 ==> #[trigger] s1.fs[k] == s.fs[k],
            s.cov(k0 + 1, u), !s1.cov(k0 + 1, u),
            forall|j: int| 0 <= j < s.n(k0) ==> #[trigger] s.fs[k0].leaf().bit_at(j),
            forall|k: int| 0 <= k <= s.m && k != k0 ==> #[trigger] f.fs[k] == s1.fs[k],
            f.fs[k0].leaf().len == s1.fs[k0].leaf().len, 2 * u + 1 < s.n(k0),
            !f.fs[k0].leaf().bit_at(2 * u + 1),
            forall|j: int| 0 <= j < s.n(k0) && j != 2 * u + 1 ==> #[trigger] f.fs[k0].leaf().bit_at(j) == s1.fs[k0].leaf().bit_at(j),
            forall|k: int, y: int| 0 <= k <= k0 + 1 ==> #[trigger] s1.cov(k, y) == (s.cov(k, y) && !is_anc(k, y, k0 + 1, u)),
            forall|j: int, y: int| #[trigger] s1.a(j, y) ==> s.cov(j, y),
        ensures f.inv1(), f.inv2(), s.cov(k0, 2 * u), !f.cov(k0, 2 * u),
            forall|k: int, y: int| 0 <= k <= k0 ==> #[trigger] f.cov(k, y) == (s.cov(k, y) && !is_anc(k, y, k0, 2 * u)),
            forall|j: int, y: int| #[trigger] f.a(j, y) ==> s.cov(j, y),
    {
        let q1 = 2 * u + 1;
        assert(s1.fs[k0] == s.fs[k0]);
        assert forall|k: int| 0 <= k <= s.m implies #[trigger] f.n(k) == s1.n(k) by {}
        assert(f.added(s1, k0, q1)) by {
            assert forall|k: int, q: int| !(k == k0 && q == q1) implies #[trigger] f.a(k, q) == s1.a(k, q) by {
                if k == k0 { if 0 <= q < s.n(k0) { assert(f.fs[k0].leaf().bit_at(q) == s1.fs[k0].leaf().bit_at(q)); } }
            }
        }
        assert(q1 / 2 == u && (2 * u) / 2 == u);
        // no free block of s1 lies below the new block
        assert forall|j: int, y: int| #[trigger] s1.a(j, y) && j < k0 implies !is_anc(j, y, k0, q1) by {
            if is_anc(j, y, k0, q1) {
                assert(is_anc(j + 1, y / 2, k0, q1));
                lemma_anc_up(j + 1, y / 2, k0, q1);
                s.lemma_cov_up(j + 1, y / 2, k0 + 1, u);
                assert(s.a(j, y));
            }
        }
        assert(sbuddy(q1) == 2 * u);
        assert(!s1.a(k0, 2 * u));
        f.lemma_added_keeps_inv(s1, k0, q1);
        // the returned block
        assert(s.cov(k0, 2 * u));
        assert(f.same_from(s1, k0 + 1)) by {
            assert forall|k: int, q: int| k0 + 1 <= k implies #[trigger] f.a(k, q) == s1.a(k, q) by {}
        }
        f.lemma_cov_frame(s1, k0 + 1, k0 + 1, u);
        assert(!f.a(k0, 2 * u));
        assert(sbuddy(2 * u) == q1);
        BS::lemma_view_split(s, s1, f, k0, u, 2 * u);
        assert forall|j: int, y: int| #[trigger] f.a(j, y) implies s.cov(j, y) by {
            if j == k0 && y == q1 { assert(s.cov(k0 + 1, q1 / 2)); } else { assert(s1.a(j, y)); }
        }
    }
}

use vstd::prelude::*;
verus! {
#[verifier::external_body]
pub fn xxh3_checksum(data: &[u8]) -> u128 { unimplemented!() }
#[verifier::external_body]
pub fn div_ceil_u32(x: u32, y: u32) -> (r: u32) requires y > 0 ensures r as int == (x as int + y as int - 1) / (y as int) { x.div_ceil(y) }

pub open spec fn wbit(w: u64, j: u64) -> bool { (w >> j) & 1u64 == 1u64 }

impl U64GroupedBitmap {
    pub open spec fn cap(&self) -> int { self.data@.len() as int * 64 }
    pub open spec fn bit_at(&self, i: int) -> bool { wbit(self.data@[i / 64], (i % 64) as u64) }
    pub open spec fn wf(&self) -> bool {
        self.len as int <= self.cap()
        && forall|i: int| self.len <= i < self.cap() ==> #[trigger] self.bit_at(i)
    }
}

pub proof fn lemma_wbit_or(w: u64, b: u64, j: u64)
    requires b < 64, j < 64,
    ensures wbit(w | (1u64 << b), j) == (j == b || wbit(w, j)),
{
    assert(((w | (1u64 << b)) >> j) & 1u64 == 1u64 <==> (j == b || (w >> j) & 1u64 == 1u64)) by (bit_vector)
        requires b < 64, j < 64;
}
pub proof fn lemma_wbit_andnot(w: u64, b: u64, j: u64)
    requires b < 64, j < 64,
    ensures wbit(w & !(1u64 << b), j) == (j != b && wbit(w, j)),
{
    assert(((w & !(1u64 << b)) >> j) & 1u64 == 1u64 <==> (j != b && (w >> j) & 1u64 == 1u64)) by (bit_vector)
        requires b < 64, j < 64;
}
pub proof fn lemma_wbit_mask(w: u64, b: u64)
    requires b < 64,
    ensures (w & (1u64 << b) != 0) == wbit(w, b),
{
    assert((w & (1u64 << b) != 0) <==> ((w >> b) & 1u64 == 1u64)) by (bit_vector) requires b < 64;
}
pub proof fn lemma_not_bit(w: u64, j: u64)
    requires j < 64,
    ensures ((!w >> j) & 1u64 == 1u64) <==> !wbit(w, j), ((!w >> j) & 1u64 == 0u64) <==> wbit(w, j),
{
    assert((((!w) >> j) & 1u64 == 1u64) <==> !((w >> j) & 1u64 == 1u64)) by (bit_vector) requires j < 64;
    assert((((!w) >> j) & 1u64 == 0u64) <==> ((w >> j) & 1u64 == 1u64)) by (bit_vector) requires j < 64;
}

// what `trailing_ones` means, in terms of wbit
pub proof fn lemma_trailing_ones(w: u64)
    ensures
        vstd::std_specs::bits::u64_trailing_ones(w) <= 64,
        vstd::std_specs::bits::u64_trailing_ones(w) == 64 <==> w == u64::MAX,
        vstd::std_specs::bits::u64_trailing_ones(w) < 64 ==> !wbit(w, vstd::std_specs::bits::u64_trailing_ones(w) as u64),
        forall|j: u64| j < vstd::std_specs::bits::u64_trailing_ones(w) ==> #[trigger] wbit(w, j),
{
    vstd::std_specs::bits::axiom_u64_trailing_zeros(!w);
    let tz = vstd::std_specs::bits::u64_trailing_zeros(!w);
    assert(!w == 0 <==> w == 0xffff_ffff_ffff_ffffu64) by (bit_vector);
    if tz < 64 {
        lemma_not_bit(w, tz as u64);
    }
    assert forall|j: u64| j < tz implies #[trigger] wbit(w, j) by {
        assert(((!w >> j) & 1u64) == 0u64);
        lemma_not_bit(w, j);
    }
}

pub proof fn lemma_wbit_max(w: u64)
    ensures (w == u64::MAX) <==> (forall|j: u64| j < 64 ==> #[trigger] wbit(w, j)),
{
    lemma_trailing_ones(w);
    if w == u64::MAX {
        assert forall|j: u64| j < 64 implies #[trigger] wbit(w, j) by {
            assert(((0xffff_ffff_ffff_ffffu64 >> j) & 1u64) == 1u64) by (bit_vector) requires j < 64;
        }
    } else {
        let t = vstd::std_specs::bits::u64_trailing_ones(w) as u64;
        assert(!wbit(w, t));
    }
}

// Returns a u64 with bits `lo..hi` set, where `0 <= lo < hi <= 64`.
fn bits_in_range(lo: u32, hi: u32) -> (r: u64)
    requires lo < hi, hi <= 64,
    ensures forall|j: u64| j < 64 ==> #[trigger] wbit(r, j) == (lo <= j < hi),
    {
    debug_assert!(lo < hi && hi <= 64);
    // Both shifts are well-defined: `lo < 64` and `64 - hi < 64`.
    let bits_at_or_above_lo = u64::MAX << lo;
    let bits_below_hi = u64::MAX >> (64 - hi);
    proof {
        let lo64 = lo as u64; let sh = (64 - hi) as u64;
        assert forall|j: u64| j < 64 implies #[trigger] wbit(bits_at_or_above_lo & bits_below_hi, j) == (lo <= j < hi) by {
            assert(((((0xffff_ffff_ffff_ffffu64 << lo64) & (0xffff_ffff_ffff_ffffu64 >> sh)) >> j) & 1u64 == 1u64) <==> (lo64 <= j && j < 64 - sh)) by (bit_vector)
                requires lo64 < 64, sh < 64, j < 64;
        }
    }
    bits_at_or_above_lo & bits_below_hi
}

// A bitmap which groups consecutive groups of 64bits together
pub struct U64GroupedBitmap {
    pub len: u32,
    pub data: Vec<u64>,
}

impl U64GroupedBitmap {
    fn required_words(elements: u32) -> (r: usize)
        ensures r as int == (elements as int + 63) / 64,
    {
        let words = div_ceil_u32(elements, 64);
        words as usize
    }

    pub fn new_full(len: u32, capacity: u32) -> (r: Self)
        requires len <= capacity,
        ensures r.wf(), r.len == len, r.data@.len() == (capacity as int + 63) / 64,
            forall|i: int| 0 <= i < r.cap() ==> #[trigger] r.bit_at(i),
    {
        let data = vec![u64::MAX; Self::required_words(capacity)];
        proof {
            lemma_wbit_max(u64::MAX);
            assert forall|i: int| 0 <= i < data@.len() * 64 implies #[trigger] wbit(data@[i / 64], (i % 64) as u64) by {
                assert(data@[i / 64] == u64::MAX);
            }
        }
        Self { len, data }
    }

    #[verifier::external_body]
    pub fn xxh3_hash(&self) -> u128 {
        if self.len == 0 {
            return 0;
        }
        let mut bytes = vec![];
        bytes.extend(self.len.to_le_bytes());
        // Hash all the whole words
        for x in &self.data[0..Self::required_words(self.len) - 1] {
            bytes.extend(x.to_le_bytes());
        }
        let (index, bit) = Self::data_index_of(self.len - 1);
        // Select the bit and all lower ones
        let mask = ((1 << bit) - 1) | (1 << bit);
        let group = self.data[index];
        let group = group & mask;
        bytes.extend(group.to_le_bytes());

        xxh3_checksum(&bytes)
    }

    // Format:
    // 4 bytes: number of elements
    // n bytes: serialized groups
    #[verifier::external_body]
    pub fn to_vec(&self) -> Vec<u8> {
        let words = Self::required_words(self.len);
        let mut result = Vec::with_capacity(4 + words * 8);
        result.extend_from_slice(&self.len.to_le_bytes());
        for x in &self.data[..words] {
            result.extend_from_slice(&x.to_le_bytes());
        }
        result
    }

    #[verifier::external_body]
    pub fn from_bytes(serialized: &[u8]) -> Self {
        assert!((0) == ((serialized.len() - 4) % 8));
        let len = u32::from_le_bytes(serialized[..4].try_into().unwrap());
        let words = (serialized.len() - 4) / 8;
        let mut data = Vec::with_capacity(words);
        for i in 0..words {
            let start = 4 + i * 8;
            let value = u64::from_le_bytes(
                serialized[start..(start + 8)]
                    .try_into()
                    .unwrap(),
            );
            data.push(value);
        }

        Self { len, data }
    }

    fn data_index_of(bit: u32) -> (r: (usize, usize))
        ensures r.0 == bit as int / 64, r.1 == bit as int % 64,
    {
        ((bit as usize) / 64, (bit as usize) % 64)
    }

    fn select_mask(bit: usize) -> (r: u64)
        requires bit < 64,
        ensures r == 1u64 << (bit as u64),
    {
        1u64 << (bit as u64)
    }

    #[verifier::external_body]
    fn count_unset(&self) -> u32 {
        self.data.iter().map(|x| x.count_zeros()).sum()
    }

    #[verifier::external_body]
    fn any_unset(&self) -> bool {
        self.data.iter().any(|x| x.count_zeros() > 0)
    }

    fn first_unset(&self, start_bit: u32, end_bit: u32) -> (r: Option<u32>)
        requires self.wf(), end_bit as int == (start_bit - start_bit % 64) + 64,
            self.len == 0 || (start_bit as int) < self.cap(),
        ensures
            match r {
                Some(x) => self.len > 0 && start_bit <= x < end_bit && !self.bit_at(x as int)
                    && forall|y: int| start_bit <= y < x ==> #[trigger] self.bit_at(y),
                None => self.len == 0 || forall|y: int| start_bit <= y < end_bit ==> #[trigger] self.bit_at(y),
            },
    {
        assert!((end_bit) == ((start_bit - start_bit % 64) + 64));
        if self.len == 0 {
            return None;
        }

        let (index, bit) = Self::data_index_of(start_bit);
        proof {
            assert((1u64 << (bit as u64)) >= 1) by (bit_vector) requires (bit as u64) < 64;
        }
        let mask = (1 << bit) - 1;
        let group = self.data[index];
        let group = group | mask;
        proof {
            let g0 = self.data@[index as int];
            let b = bit as u64;
            lemma_trailing_ones(group);
            // bits below `bit` are forced to 1 by the mask; the others are those of the word
            assert forall|j: u64| j < 64 implies #[trigger] wbit(group, j) == (j < b || wbit(g0, j)) by {
                assert((((g0 | (((1u64 << b) - 1) as u64)) >> j) & 1u64 == 1u64) <==> (j < b || ((g0 >> j) & 1u64 == 1u64))) by (bit_vector)
                    requires b < 64, j < 64;
            }
            let t = vstd::std_specs::bits::u64_trailing_ones(group);
            if t < 64 {
                assert(!wbit(group, t as u64));
                assert(t as u64 >= b);
            }
            assert forall|y: int| start_bit <= y < start_bit - b + t && y < end_bit implies #[trigger] self.bit_at(y) by {
                assert(y / 64 == index as int);
                assert(wbit(group, (y % 64) as u64));
            }
        }
        match group.trailing_ones() {
            64 => None,
            x => Some(start_bit + x - u32::try_from(bit).unwrap()),
        }
    }

    pub fn len(&self) -> (r: u32)
        ensures r == self.len,
    {
        self.len
    }

    pub fn resize(&mut self, new_len: u32, full: bool)
        requires old(self).wf(), full,
            new_len < old(self).len ==> forall|i: int| new_len <= i < old(self).len ==> #[trigger] old(self).bit_at(i),
        ensures final(self).wf(), final(self).len == new_len, final(self).data@.len() >= old(self).data@.len(),
            forall|i: int| 0 <= i < old(self).len && i < new_len ==> #[trigger] final(self).bit_at(i) == old(self).bit_at(i),
            forall|i: int| old(self).len <= i < final(self).cap() ==> #[trigger] final(self).bit_at(i),
            forall|w: int| 0 <= w < old(self).data@.len() && (w + 1) * 64 <= old(self).len ==> #[trigger] final(self).data@[w] == old(self).data@[w],
    {
        if self.data.len() < Self::required_words(new_len) {
            let default_value = if full { u64::MAX } else { 0 };
            self.data
                .resize(Self::required_words(new_len), default_value);
        }
        let old_len = self.len;
        self.len = new_len;
        proof {
            lemma_wbit_max(u64::MAX);
            assert forall|i: int| old(self).len <= i < self.cap() implies #[trigger] self.bit_at(i) by {
                if i < old(self).cap() {
                    assert(self.data@[i / 64] == old(self).data@[i / 64]);
                    assert(old(self).bit_at(i));
                } else {
                    assert(self.data@[i / 64] == u64::MAX);
                }
            }
            assert forall|i: int| 0 <= i < old(self).cap() implies #[trigger] self.bit_at(i) == old(self).bit_at(i) by {
                assert(self.data@[i / 64] == old(self).data@[i / 64]);
            }
        }
        if old_len >= new_len {
            return;
        }
        // Apply `full` to bits [old_len, new_len) one word at a time. For each
        // word, build a mask of just the bits in that range that fall within
        // the word, then OR it in (full=true) or AND its complement (full=false).
        let start_word = old_len / 64;
        let end_word = (new_len - 1) / 64;
        for word in iter: start_word..=end_word
            invariant
                self.len == new_len, old_len == old(self).len, old_len < new_len, full,
                start_word == old_len / 64, end_word == (new_len - 1) / 64,
                self.data@.len() >= old(self).data@.len(), self.cap() >= new_len,
                forall|i: int| 0 <= i < old_len ==> #[trigger] self.bit_at(i) == old(self).bit_at(i),
                forall|i: int| old_len <= i < self.cap() ==> #[trigger] self.bit_at(i),
                forall|w: int| 0 <= w < old(self).data@.len() && (w + 1) * 64 <= old_len ==> #[trigger] self.data@[w] == old(self).data@[w],
        {
            let word_first_bit = word * 64;
            let lo = old_len.saturating_sub(word_first_bit);
            let hi = (new_len - word_first_bit).min(64);
            let mask = bits_in_range(lo, hi);
            let ghost pre = *self;
            let slot = &mut self.data[word as usize];
            if full {
                *slot |= mask;
            } else {
                *slot &= !mask;
            }
            proof {
                let w0 = pre.data@[word as int];
                assert forall|j: u64| j < 64 implies #[trigger] wbit(w0 | mask, j) == (wbit(w0, j) || wbit(mask, j)) by {
                    assert((((w0 | mask) >> j) & 1u64 == 1u64) <==> (((w0 >> j) & 1u64 == 1u64) || ((mask >> j) & 1u64 == 1u64))) by (bit_vector)
                        requires j < 64;
                }
                assert forall|i: int| 0 <= i < old_len implies #[trigger] self.bit_at(i) == old(self).bit_at(i) by {
                    assert(pre.bit_at(i) == old(self).bit_at(i));
                    if i / 64 == word as int {
                        assert(!wbit(mask, (i % 64) as u64));
                    }
                }
                assert forall|i: int| old_len <= i < self.cap() implies #[trigger] self.bit_at(i) by {
                    assert(pre.bit_at(i));
                }
            }
        }
    }

    pub fn get(&self, bit: u32) -> (r: bool)
        requires self.wf(), bit < self.len,
        ensures r == self.bit_at(bit as int),
    {
        assert!(bit < self.len);
        let (index, bit_index) = Self::data_index_of(bit);
        let group = self.data[index];
        proof { lemma_wbit_mask(group, bit_index as u64); }
        group & U64GroupedBitmap::select_mask(bit_index) != 0
    }

    // Returns true iff the bit's group is all set
    pub fn set(&mut self, bit: u32) -> (r: bool)
        requires old(self).wf(), bit < old(self).len,
        ensures final(self).wf(), final(self).len == old(self).len, final(self).data@.len() == old(self).data@.len(),
            final(self).bit_at(bit as int),
            forall|j: int| 0 <= j < old(self).cap() && j != bit ==> #[trigger] final(self).bit_at(j) == old(self).bit_at(j),
            forall|w: int| 0 <= w < old(self).data@.len() && w != bit as int / 64 ==> #[trigger] final(self).data@[w] == old(self).data@[w],
            r == (final(self).data@[bit as int / 64] == u64::MAX),
    {
        assert!(bit < self.len);
        let (index, bit_index) = Self::data_index_of(bit);
        let mut group = self.data[index];
        group |= Self::select_mask(bit_index);
        self.data[index] = group;

        proof {
            let ob = old(self).data@[index as int];
            assert forall|j: int| 0 <= j < old(self).cap() && j != bit implies #[trigger] self.bit_at(j) == old(self).bit_at(j) by {
                if j / 64 == index as int {
                    lemma_wbit_or(ob, bit_index as u64, (j % 64) as u64);
                }
            }
            lemma_wbit_or(ob, bit_index as u64, bit_index as u64);
        }
        group == u64::MAX
    }

    pub fn clear(&mut self, bit: u32)
        requires old(self).wf(), bit < old(self).len,
        ensures final(self).wf(), final(self).len == old(self).len, final(self).data@.len() == old(self).data@.len(),
            !final(self).bit_at(bit as int),
            forall|j: int| 0 <= j < old(self).cap() && j != bit ==> #[trigger] final(self).bit_at(j) == old(self).bit_at(j),
            forall|w: int| 0 <= w < old(self).data@.len() && w != bit as int / 64 ==> #[trigger] final(self).data@[w] == old(self).data@[w],
            final(self).data@[bit as int / 64] != u64::MAX,
    {
        assert!(bit < self.len, "{bit} must be less than {}", self.len);
        let (index, bit_index) = Self::data_index_of(bit);
        let ghost ob = self.data@[index as int];
        self.data[index] &= !Self::select_mask(bit_index);
        proof {
            assert forall|j: int| 0 <= j < old(self).cap() && j != bit implies #[trigger] self.bit_at(j) == old(self).bit_at(j) by {
                if j / 64 == index as int {
                    lemma_wbit_andnot(ob, bit_index as u64, (j % 64) as u64);
                }
            }
            lemma_wbit_andnot(ob, bit_index as u64, bit_index as u64);
            lemma_wbit_max(self.data@[index as int]);
        }
    }
}




impl BtreeBitmap {
    pub open spec fn h(&self) -> int { self.heights@.len() as int }
    pub open spec fn lvl(&self, k: int) -> U64GroupedBitmap { self.heights@[k] }
    pub open spec fn leaf(&self) -> U64GroupedBitmap { self.heights@[self.heights@.len() - 1] }
    // summary invariant between level p (parent) and p+1 (child)
    pub open spec fn summary(&self, p: int) -> bool {
        forall|e: int| 0 <= e < self.heights@[p].len ==> (#[trigger] self.heights@[p].bit_at(e) <==> self.heights@[p + 1].data@[e] == u64::MAX)
    }
    pub open spec fn shape_ok(&self) -> bool {
        1 <= self.h() <= 16
        && (forall|k: int| 0 <= k < self.h() ==> (#[trigger] self.heights@[k]).wf() && self.heights@[k].len <= 0x4000_0000)
        && self.heights@[0].len <= 64
        && (forall|k: int| 0 <= k < self.h() - 1 ==> (#[trigger] self.heights@[k]).len as int == (self.heights@[k + 1].len as int + 63) / 64)
    }
    pub open spec fn wf(&self) -> bool {
        self.shape_ok() && forall|p: int| 0 <= p < self.h() - 1 ==> #[trigger] self.summary(p)
    }
    // every summary pair holds except (p, p+1), which holds everywhere but at entry e,
    // and `full` tells whether child word e is all ones
    pub open spec fn wf_except(&self, p: int, e: int, full: bool) -> bool {
        self.shape_ok() && 0 <= p <= self.h() - 2 && 0 <= e < self.heights@[p].len
        && (forall|q: int| 0 <= q < self.h() - 1 && q != p ==> #[trigger] self.summary(q))
        && (forall|e2: int| 0 <= e2 < self.heights@[p].len && e2 != e ==> (#[trigger] self.heights@[p].bit_at(e2) <==> self.heights@[p + 1].data@[e2] == u64::MAX))
        && (full <==> self.heights@[p + 1].data@[e] == u64::MAX)
    }
    // if every entry of level p is set, every leaf entry is set
    pub proof fn lemma_full_down(&self, p: int)
        requires self.wf(), 0 <= p < self.h(),
            forall|e: int| 0 <= e < self.heights@[p].len ==> #[trigger] self.heights@[p].bit_at(e),
        ensures forall|y: int| 0 <= y < self.leaf().len ==> #[trigger] self.leaf().bit_at(y),
        decreases self.h() - p,
    {
        if p < self.h() - 1 {
            let c = self.heights@[p + 1];
            assert(self.summary(p));
            assert(self.heights@[p].wf() && c.wf());
            assert forall|y: int| 0 <= y < c.len implies #[trigger] c.bit_at(y) by {
                assert(self.heights@[p].bit_at(y / 64));
                assert(c.data@[y / 64] == u64::MAX);
                lemma_wbit_max(c.data@[y / 64]);
            }
            self.lemma_full_down(p + 1);
        }
    }
    pub open spec fn same_shape(&self, o: BtreeBitmap) -> bool {
        self.h() == o.h()
        && forall|k: int| 0 <= k < self.h() ==> (#[trigger] self.heights@[k]).len == o.heights@[k].len && self.heights@[k].data@.len() == o.heights@[k].data@.len()
    }
}
pub struct BtreeBitmap {
    pub heights: Vec<U64GroupedBitmap>,
}

// Stores a 64-way bit-tree of allocated ids.
//
// Data structure format:
// height: u32
// layer_ends: array of u32, ending offset in bytes of layers.
// layer data: u64s
// ...consecutive layers. Except for the last level, all sub-trees of the root must be complete
impl BtreeBitmap {
    #[verifier::external_body]
    pub fn count_unset(&self) -> u32 {
        self.get_level(self.get_height() - 1).count_unset()
    }

    pub fn has_unset(&self) -> (r: bool)
        requires self.wf(),
    {
        self.get_level(self.get_height() - 1).any_unset()
    }

    pub fn get(&self, i: u32) -> (r: bool)
        requires self.wf(), i < self.leaf().len,
        ensures r == self.leaf().bit_at(i as int),
    {
        self.get_level(self.get_height() - 1).get(i)
    }

    pub fn len(&self) -> (r: u32)
        requires self.wf(),
        ensures r == self.leaf().len,
    {
        self.get_level(self.get_height() - 1).len()
    }

    pub fn find_first_unset(&self) -> (r: Option<u32>)
        requires self.wf(),
        ensures
            match r {
                Some(x) => x < self.leaf().len && !self.leaf().bit_at(x as int)
                    && forall|y: int| 0 <= y < x ==> #[trigger] self.leaf().bit_at(y),
                None => forall|y: int| 0 <= y < self.leaf().len ==> #[trigger] self.leaf().bit_at(y),
            },
    {
        if let Some(mut entry) = self.get_level(0).first_unset(0, 64) {
            let mut height = 0;
            proof {
                let l0 = self.heights@[0];
                assert(l0.wf());
                // an unset bit cannot be padding
                assert(l0.len > 0);
                assert(l0.cap() >= 64);
                if entry >= l0.len { assert(l0.bit_at(entry as int)); }
            }

            while height < self.get_height() - 1
                invariant
                    self.wf(), (height as int) < self.h(), entry < self.heights@[height as int].len,
                    !self.heights@[height as int].bit_at(entry as int),
                    forall|y: int| 0 <= y < entry ==> #[trigger] self.heights@[height as int].bit_at(y),
                decreases self.h() - height,
            {
                let ghost ph = height as int;
                let ghost parent = entry as int;
                proof {
                    let c = self.heights@[ph + 1];
                    let w = c.data@[parent];
                    assert(self.summary(ph));
                    assert(self.heights@[ph].bit_at(parent) <==> w == u64::MAX);
                    assert(self.heights@[ph].wf() && c.wf());
                    lemma_wbit_max(w);
                    let j = choose|j: u64| j < 64 && !wbit(w, j);
                    assert(!c.bit_at(parent * 64 + j as int)) by {
                        assert((parent * 64 + j as int) / 64 == parent && (parent * 64 + j as int) % 64 == j as int) by (nonlinear_arith)
                            requires 0 <= parent, 0 <= j < 64;
                    }
                }
                height += 1;
                entry *= 64;
                entry = self
                    .get_level(height)
                    .first_unset(entry, entry + 64)
                    .unwrap();
                proof {
                    let c = self.heights@[ph + 1];
                    assert(height as int == ph + 1);
                    // everything left of the parent's word is set, because the parent bits left of it are set
                    assert forall|y: int| 0 <= y < entry implies #[trigger] c.bit_at(y) by {
                        if y < parent * 64 {
                            assert(self.heights@[ph].bit_at(y / 64));
                            assert(c.data@[y / 64] == u64::MAX);
                            lemma_wbit_max(c.data@[y / 64]);
                        }
                    }
                    // an unset bit cannot be padding
                    if entry >= c.len { assert(c.bit_at(entry as int)); }
                }
            }

            Some(entry)
        } else {
            proof {
                let l0 = self.heights@[0];
                assert(l0.wf());
                self.lemma_full_down(0);
            }
            None
        }
    }

    fn get_level(&self, i: u32) -> (r: &U64GroupedBitmap)
        requires (i as int) < self.heights@.len(), self.heights@.len() <= 16,
        ensures *r == self.heights@[i as int],
    {
        assert!(i < self.get_height());
        &self.heights[i as usize]
    }

    fn get_height(&self) -> (r: u32)
        requires self.heights@.len() <= 16,
        ensures r as int == self.heights@.len(),
    {
        self.heights.len().try_into().unwrap()
    }

    // Returns the first unset id, and sets it
    pub fn alloc(&mut self) -> (r: Option<u32>)
        requires old(self).wf(),
        ensures final(self).wf(), final(self).same_shape(*old(self)),
            match r {
                Some(x) => x < old(self).leaf().len && !old(self).leaf().bit_at(x as int)
                    && (forall|y: int| 0 <= y < x ==> #[trigger] old(self).leaf().bit_at(y))
                    && final(self).leaf().bit_at(x as int)
                    && forall|j: int| 0 <= j < old(self).leaf().len && j != x ==> #[trigger] final(self).leaf().bit_at(j) == old(self).leaf().bit_at(j),
                None => (forall|y: int| 0 <= y < old(self).leaf().len ==> #[trigger] old(self).leaf().bit_at(y)) && *final(self) == *old(self),
            },
    {
        let entry = self.find_first_unset()?;
        self.set(entry);
        Some(entry)
    }

    pub fn set(&mut self, i: u32)
        requires old(self).wf(), i < old(self).leaf().len,
        ensures final(self).wf(), final(self).same_shape(*old(self)),
            final(self).leaf().bit_at(i as int),
            forall|j: int| 0 <= j < old(self).leaf().len && j != i ==> #[trigger] final(self).leaf().bit_at(j) == old(self).leaf().bit_at(j),
    {
        let full = self.get_level_mut(self.get_height() - 1).set(i);
        proof { lemma_leaf_changed(*old(self), *self, i as int, full); }
        self.update_to_root(i, full);
    }

    pub fn clear(&mut self, i: u32)
        requires old(self).wf(), i < old(self).leaf().len,
        ensures final(self).wf(), final(self).same_shape(*old(self)),
            !final(self).leaf().bit_at(i as int),
            forall|j: int| 0 <= j < old(self).leaf().len && j != i ==> #[trigger] final(self).leaf().bit_at(j) == old(self).leaf().bit_at(j),
    {
        self.get_level_mut(self.get_height() - 1).clear(i);
        proof { lemma_leaf_changed(*old(self), *self, i as int, false); }
        self.update_to_root(i, false);
    }

    fn get_level_mut(&mut self, i: u32) -> (r: &mut U64GroupedBitmap)
        requires (i as int) < old(self).heights@.len(), old(self).heights@.len() <= 16,
        ensures *r == old(self).heights@[i as int],
            final(self).heights@ == old(self).heights@.update(i as int, *final(r)),
    {
        assert!(i < self.get_height());
        &mut self.heights[i as usize]
    }

    // Recursively update to the root, starting at the given entry in the given height
    // full parameter must be set if all bits in the entry's group of u64 are full
    fn update_to_root(&mut self, i: u32, mut full: bool)
        requires old(self).shape_ok(), i < old(self).leaf().len,
            old(self).h() >= 2 ==> old(self).wf_except(old(self).h() - 2, i as int / 64, full),
        ensures final(self).wf(), final(self).same_shape(*old(self)), final(self).leaf() == old(self).leaf(),
    {
        if self.get_height() == 1 {
            return;
        }

        let mut parent_height = self.get_height() - 2;
        let mut parent_entry = i / 64;
        loop
            invariant_except_break
                self.wf_except(parent_height as int, parent_entry as int, full),
                self.same_shape(*old(self)), self.leaf() == old(self).leaf(),
            ensures
                self.wf(), self.same_shape(*old(self)), self.leaf() == old(self).leaf(),
            decreases parent_height,
        {
            let ghost pre = *self;
            full = if full {
                self.get_level_mut(parent_height).set(parent_entry)
            } else {
                self.get_level_mut(parent_height).clear(parent_entry);
                false
            };

            proof {
                let p = parent_height as int;
                let e = parent_entry as int;
                assert(self.heights@ == pre.heights@.update(p, self.heights@[p]));
                assert forall|k: int| 0 <= k < self.h() && k != p implies #[trigger] self.heights@[k] == pre.heights@[k] by {}
                // pair (p, p+1) is whole again
                assert(self.summary(p)) by {
                    assert forall|e2: int| 0 <= e2 < self.heights@[p].len implies (#[trigger] self.heights@[p].bit_at(e2) <==> self.heights@[p + 1].data@[e2] == u64::MAX) by {
                        if e2 != e { assert(pre.heights@[p].bit_at(e2) <==> pre.heights@[p + 1].data@[e2] == u64::MAX); }
                    }
                }
                // pairs not touching level p are as before
                assert forall|q: int| 0 <= q < self.h() - 1 && q != p && q + 1 != p implies #[trigger] self.summary(q) by {
                    assert(pre.summary(q));
                }
                if p > 0 {
                    // pair (p-1, p): only word e/64 of level p changed
                    assert forall|e2: int| 0 <= e2 < self.heights@[p - 1].len && e2 != e / 64 implies (#[trigger] self.heights@[p - 1].bit_at(e2) <==> self.heights@[p - 1 + 1].data@[e2] == u64::MAX) by {
                        assert(pre.summary(p - 1));
                        assert(pre.heights@[p - 1].bit_at(e2) <==> pre.heights@[p - 1 + 1].data@[e2] == u64::MAX);
                    }
                    assert(e / 64 < self.heights@[p - 1].len);
                } else {
                    assert forall|q: int| 0 <= q < self.h() - 1 implies #[trigger] self.summary(q) by {}
                }
            }
            if parent_height == 0 {
                break;
            }
            parent_height -= 1;
            parent_entry /= 64;
        }
    }
}


// after the leaf word holding bit i changed, the tree is whole except for the pair above the leaf
pub proof fn lemma_leaf_changed(o: BtreeBitmap, n: BtreeBitmap, i: int, full: bool)
    requires
        o.wf(), 0 <= i < o.leaf().len,
        n.heights@ == o.heights@.update(o.h() - 1, n.leaf()),
        n.leaf().wf(), n.leaf().len == o.leaf().len, n.leaf().data@.len() == o.leaf().data@.len(),
        forall|w: int| 0 <= w < o.leaf().data@.len() && w != i / 64 ==> #[trigger] n.leaf().data@[w] == o.leaf().data@[w],
        full <==> n.leaf().data@[i / 64] == u64::MAX,
    ensures
        n.shape_ok(), n.same_shape(o),
        n.h() >= 2 ==> n.wf_except(n.h() - 2, i / 64, full),
{
    let h = o.h();
    assert forall|k: int| 0 <= k < h - 1 implies #[trigger] n.heights@[k] == o.heights@[k] by {}
    assert(n.heights@[h - 1] == n.leaf());
    assert(o.heights@[h - 1] == o.leaf());
    if h >= 2 {
        let p = h - 2;
        assert forall|q: int| 0 <= q < h - 1 && q != p implies #[trigger] n.summary(q) by {
            assert(o.summary(q));
        }
        assert(o.summary(p));
        assert(o.heights@[p].wf() && o.heights@[p + 1].wf());
        assert forall|e2: int| 0 <= e2 < n.heights@[p].len && e2 != i / 64 implies (#[trigger] n.heights@[p].bit_at(e2) <==> n.heights@[p + 1].data@[e2] == u64::MAX) by {
            assert(o.heights@[p].bit_at(e2) <==> o.heights@[p + 1].data@[e2] == u64::MAX);
        }
    }
}

pub open spec fn pow2(e: nat) -> int decreases e { if e == 0 { 1 } else { 2 * pow2((e - 1) as nat) } }
pub open spec fn sbuddy(q: int) -> int { if q % 2 == 0 { q + 1 } else { q - 1 } }
pub const MAX_MAX_PAGE_ORDER: u8 = 20;
pub fn min_u8(a: u8, b: u8) -> (r: u8) ensures r == (if a <= b { a } else { b }) { if a <= b { a } else { b } }

pub proof fn lemma_pow2_pos(k: nat) ensures pow2(k) > 0 decreases k { if k > 0 { lemma_pow2_pos((k - 1) as nat); } }
pub proof fn lemma_half(len: int, k: nat)
    requires len >= 0,
    ensures len / pow2(k + 1) == (len / pow2(k)) / 2, pow2(k) > 0,
{
    lemma_pow2_pos(k);
    assert(pow2(k + 1) == pow2(k) * 2);
    vstd::arithmetic::div_mod::lemma_div_denominator(len, pow2(k), 2);
}

impl BuddyAllocator {
    // n_{k+1} = n_k / 2 for the leaf lengths of consecutive orders
    pub proof fn lemma_len_half(&self, k: int)
        requires self.shape(), 0 <= k < self.max_order,
        ensures self.ord(k + 1).len as int == (self.ord(k).len as int) / 2,
    {
        lemma_half(self.len as int, k as nat);
        assert(self.free@[k].leaf().len as int == self.len as int / pow2(k as nat));
        assert(self.free@[k + 1].leaf().len as int == self.len as int / pow2((k + 1) as nat));
    }
    pub open spec fn ord(&self, k: int) -> U64GroupedBitmap { self.free@[k].leaf() }
    pub open spec fn shape(&self) -> bool {
        self.free@.len() == self.max_order as int + 1 && self.max_order <= 20
        && (forall|k: int| 0 <= k <= self.max_order ==> (#[trigger] self.free@[k]).wf())
        && (forall|k: int| 0 <= k <= self.max_order ==> (#[trigger] self.free@[k]).leaf().len as int == self.len as int / pow2(k as nat))
    }
    pub open spec fn same_shape(&self, o: BuddyAllocator) -> bool {
        self.len == o.len && self.max_order == o.max_order && self.free@.len() == o.free@.len()
        && forall|k: int| 0 <= k < self.free@.len() ==> (#[trigger] self.free@[k]).same_shape(o.free@[k])
    }
}
pub const MAX_ORDER_OFFSET: usize = 0;
pub const PADDING: usize = 3;
pub const NUM_PAGES_OFFSET: usize = MAX_ORDER_OFFSET + 1 + PADDING;
pub const FREE_END_OFFSETS: usize = NUM_PAGES_OFFSET + 4;

fn calculate_usable_order(pages: u32) -> (r: u8)
    requires pages > 0
    ensures r <= 20
{
    let max_order = (32 - pages.leading_zeros() - 1).try_into().unwrap();
    min_u8(MAX_MAX_PAGE_ORDER, max_order)
}

fn next_higher_order(page_number: u32) -> (r: u32)
    ensures r == page_number / 2,
    {
    page_number / 2
}

fn buddy_page(page_number: u32) -> (r: u32)
    requires page_number < 0x8000_0000,
    ensures r as int == sbuddy(page_number as int),
    {
    proof {
        assert((page_number ^ 1u32) == (if page_number % 2 == 0 { (page_number + 1) as u32 } else { (page_number - 1) as u32 })) by (bit_vector)
            requires page_number < 0x8000_0000u32;
    }
    page_number ^ 1
}

// Handles allocation of dynamically sized pages, supports pages of up to page_size * 2^max_order bytes
//
// Pages are marked free at only a single order, and it must always be the largest order
pub struct BuddyAllocator {
    pub free: Vec<BtreeBitmap>,
    pub len: u32,
    pub max_order: u8,
}

impl BuddyAllocator {
    pub fn get_max_order(&self) -> (r: u8)
        ensures r == self.max_order,
    {
        self.max_order
    }

    #[verifier::loop_isolation(false)]
    fn find_free_order(&self, mut page: u32) -> (r: Option<u8>)
        requires self.shape(),
        ensures r matches Some(k) ==> k <= self.max_order && self.st().a(k as int, page as int / pow2(k as nat))
                    && self.st().cov(0, page as int),
            r is None ==> !self.st().cov(0, page as int),
    {
        let ghost page0 = page as int;
        proof { assert(pow2(0) == 1); }
        for order in iter: 0..=self.max_order
            invariant self.shape(), 0 <= page0, page as int == page0 / pow2(order as nat),
                forall|j: int| 0 <= j < order ==> !#[trigger] self.st().a(j, page0 / pow2(j as nat)),
        {
            if page < self.get_order_free(order).len() && !self.get_order_free(order).get(page) {
                proof {
                    assert(self.free@[order as int].leaf().len == self.st().n(order as int));
                    assert(self.st().a(order as int, page as int));
                    self.st().lemma_page_in_free_block(page0, order as nat);
                }
                return Some(order);
            }
            proof { lemma_half(page0, order as nat); }
            page = next_higher_order(page);
        }
        proof {
            self.st().lemma_cov_chain(page0, (self.max_order + 1) as nat);
        }
        None
    }

    pub fn trailing_free_pages(&self) -> (r: u32)
        requires self.wf2(), self.len > 0,
        ensures r <= self.len, forall|p: int| self.len - r <= p < self.len ==> #[trigger] self.st().cov(0, p),
    {
        let mut free_pages = 0;
        let mut next_page = self.len() - 1;
        let ghost has_prev = false;
        let ghost pk: nat = 0;
        let ghost pq: int = 0;
        while let Some(order) = self.find_free_order(next_page)
            invariant_except_break
                self.wf2(), next_page < self.len, free_pages as int == self.len - 1 - next_page,
                forall|p: int| next_page < p < self.len ==> #[trigger] self.st().cov(0, p),
                has_prev ==> pk <= self.max_order && self.st().a(pk as int, pq) && pq * pow2(pk) == next_page + 1,
                !has_prev ==> next_page == self.len - 1,
            ensures
                free_pages <= self.len,
                forall|p: int| self.len - free_pages <= p < self.len ==> #[trigger] self.st().cov(0, p),
            decreases next_page,
        {
            let ghost k = order as nat;
            let ghost np = next_page as int;
            let ghost q = np / pow2(k);
            let ghost sz = pow2(k);
            proof {
                lemma_pow2_pos(k);
                lemma_div_block(np, q, sz);
                // the block lies inside the region
                assert(q < self.st().n(k as int));
                assert(self.st().n(k as int) == self.len as int / sz);
                lemma_div_block(self.len as int, self.len as int / sz, sz);
                assert((q + 1) * sz <= self.len) by (nonlinear_arith)
                    requires q + 1 <= self.len as int / sz, (self.len as int / sz) * sz <= self.len, sz > 0;
                // ... and ends exactly at next_page
                if (q + 1) * sz > np + 1 {
                    if has_prev {
                        let s = np + 1;
                        lemma_in_block_div(s, q, sz);
                        lemma_pow2_pos(pk);
                        assert((pq + 1) * pow2(pk) == pq * pow2(pk) + pow2(pk)) by (nonlinear_arith);
                        lemma_in_block_div(s, pq, pow2(pk));
                        if pk == k {
                            assert(pq == q);
                        } else if pk < k {
                            self.st().lemma_two_orders(s, pk, k);
                        } else {
                            self.st().lemma_two_orders(s, k, pk);
                        }
                    }
                }
                assert((q + 1) * sz == np + 1);
                // all pages of the block are free
                assert forall|p: int| q * sz <= p <= np implies #[trigger] self.st().cov(0, p) by {
                    lemma_in_block_div(p, q, sz);
                    self.st().lemma_page_in_free_block(p, k);
                }
                assert((q + 1) * sz == q * sz + sz) by (nonlinear_arith);
            }
            let order_size = pow2_u32(order);
            free_pages += order_size;
            if order_size > next_page {
                break;
            }
            next_page -= order_size;
            proof { has_prev = true; pk = k; pq = q; }
        }

        free_pages
    }
    pub fn len(&self) -> (r: u32)
        ensures r == self.len,
    {
        self.len
    }

    pub fn alloc(&mut self, order: u8) -> (r: Option<u32>)
        requires old(self).wf2(),
        ensures final(self).wf2(), final(self).same_shape(*old(self)),
            r matches Some(p) ==> (p as int) < old(self).ord(order as int).len && old(self).st().cov(order as int, p as int) && !final(self).st().cov(order as int, p as int),
            r matches Some(p) ==> forall|k: int, y: int| 0 <= k <= order ==> #[trigger] final(self).st().cov(k, y)
                    == (old(self).st().cov(k, y) && !is_anc(k, y, order as int, p as int)),
            r matches Some(p) ==> forall|j: int, y: int| #[trigger] final(self).st().a(j, y) ==> old(self).st().cov(j, y),
            r is None ==> final(self).free@ == old(self).free@,
            r is None ==> forall|k: int, q: int| order <= k ==> !#[trigger] old(self).st().a(k, q),
            r matches Some(p) ==> order <= old(self).max_order && (p as int) < old(self).ord(order as int).len,
    {
        self.alloc_inner(order)
    }

    pub fn alloc_inner(&mut self, order: u8) -> (r: Option<u32>)
        requires old(self).wf2(),
        ensures final(self).wf2(), final(self).same_shape(*old(self)),
            r matches Some(p) ==> old(self).st().cov(order as int, p as int) && !final(self).st().cov(order as int, p as int),
            r matches Some(p) ==> forall|k: int, y: int| 0 <= k <= order ==> #[trigger] final(self).st().cov(k, y)
                    == (old(self).st().cov(k, y) && !is_anc(k, y, order as int, p as int)),
            r matches Some(p) ==> forall|j: int, y: int| #[trigger] final(self).st().a(j, y) ==> old(self).st().cov(j, y),
            r is None ==> forall|k: int, q: int| order <= k ==> !#[trigger] old(self).st().a(k, q),
            r matches Some(p) ==> order <= old(self).max_order && (p as int) < old(self).ord(order as int).len
                && final(self).ord(order as int).bit_at(p as int),
            r is None ==> final(self).free@ == old(self).free@,
            forall|k: int| 0 <= k < order && k < old(self).free@.len() ==> #[trigger] final(self).free@[k] == old(self).free@[k],
        decreases 255 - order,
    {
        if order > self.max_order {
            return None;
        }
        let allocator = self.get_order_free_mut(order);
        if let Some(x) = allocator.alloc() {
            proof { BS::lemma_alloc_case_a(old(self).st(), self.st(), order as int, x as int); }
            Some(x)
        } else {
            // Try to allocate a higher order page and split it
            let ghost mid = *self;
            proof {
                // alloc() returned None: level `order` has no free entry, and nothing changed
                assert(mid.free@[order as int] == old(self).free@[order as int]);
            }
            proof {
                assert(mid.free@ =~= old(self).free@);
                assert(mid.st() == old(self).st());
                // level `order` is entirely allocated, so nothing at this level is free
                assert forall|q: int| !#[trigger] mid.st().a(order as int, q) by {}
            }
            let upper_page = self.alloc_inner(order + 1)?;
            let ghost s1 = *self;
            proof {
                self.lemma_len_half(order as int);
                assert(self.free@[order as int] == mid.free@[order as int]);
            }
            let (free1, free2) = (upper_page * 2, upper_page * 2 + 1);
            let allocator = self.get_order_free_mut(order);
            debug_assert!(allocator.get(free1));
            debug_assert!(allocator.get(free2));
            allocator.clear(free2);
            proof { BS::lemma_alloc_case_b(mid.st(), s1.st(), self.st(), order as int, upper_page as int); }

            Some(free1)
        }
    }

    // `page_number` must be free. Returns false if it cannot be marked allocated: the order is too
    // large for this region, the page is out of range, or the space is already in use. Rebuilding
    // the allocator state feeds this page numbers read from the file, where any of the three means
    // the file is corrupt; the callers that compute page numbers themselves assert instead.
    pub fn record_alloc(&mut self, page_number: u32, order: u8) -> (r: bool)
        requires old(self).wf2(),
        ensures final(self).wf2(), final(self).same_shape(*old(self)),
            r ==> old(self).st().cov(order as int, page_number as int) && !final(self).st().cov(order as int, page_number as int),
            !r ==> !old(self).st().cov(order as int, page_number as int),
            r ==> order <= old(self).max_order && (page_number as int) < old(self).ord(order as int).len,
    {
        // Split parent pages as necessary, and update the free index
        self.record_alloc_inner(page_number, order)
    }
    pub fn record_alloc_inner(&mut self, page_number: u32, order: u8) -> (r: bool)
        requires old(self).wf2(),
        ensures final(self).wf2(), final(self).same_shape(*old(self)),
            r ==> old(self).st().cov(order as int, page_number as int) && !final(self).st().cov(order as int, page_number as int),
            r ==> forall|k: int, y: int| 0 <= k <= order ==> #[trigger] final(self).st().cov(k, y)
                    == (old(self).st().cov(k, y) && !is_anc(k, y, order as int, page_number as int)),
            !r ==> !old(self).st().cov(order as int, page_number as int),
            r ==> order <= old(self).max_order && (page_number as int) < old(self).ord(order as int).len
                && final(self).ord(order as int).bit_at(page_number as int),
            !r ==> final(self).free@ == old(self).free@,
            forall|k: int| 0 <= k < order && k < old(self).free@.len() ==> #[trigger] final(self).free@[k] == old(self).free@[k],
        decreases 255 - order,
    {
        // Marking a page that is already allocated walks up the orders looking for a free parent to
        // split, so running off the top is how a duplicate or overlapping page number shows up
        if order > self.max_order {
            return false;
        }
        proof { self.lemma_st_halving(); }
        let allocator = self.get_order_free_mut(order);
        if page_number >= allocator.len() {
            proof {
                assert(self.free@ =~= old(self).free@);
                old(self).st().lemma_out_of_range_not_cov(order as int, page_number as int);
            }
            return false;
        }
        if allocator.get(page_number) {
            // Need to split parent page
            let upper_page = next_higher_order(page_number);
            proof { if order < self.max_order { self.lemma_len_half(order as int); } }
            proof { assert(self.free@ =~= old(self).free@); assert(self.st() == old(self).st()); }
            let ghost mid = *self;
            if !self.record_alloc_inner(upper_page, order + 1) {
                return false;
            }
            let ghost s1 = *self;
            let allocator = self.get_order_free_mut(order);

            let (free1, free2) = (upper_page * 2, upper_page * 2 + 1);
            debug_assert!(free1 == page_number || free2 == page_number);
            if free1 == page_number {
                allocator.clear(free2);
            } else {
                allocator.clear(free1);
            }
            proof { BS::lemma_record_case_split(mid.st(), s1.st(), self.st(), order as int, upper_page as int, page_number as int); }
        } else {
            allocator.set(page_number);
            proof { BS::lemma_alloc_case_a(old(self).st(), self.st(), order as int, page_number as int); }
        }

        true
    }

    /// data must have been initialized by `Self::init_new()`
    ///
    /// Returns the order of the resulting free block, which is `>= order` when buddies merge.
    pub fn free(&mut self, page_number: u32, order: u8) -> (r: u8)
        requires old(self).wf2(), order <= old(self).max_order, (page_number as int) < old(self).ord(order as int).len,
            old(self).ord(order as int).bit_at(page_number as int),
            !old(self).st().cov(order as int, page_number as int),
            old(self).st().no_free_below(order as int, page_number as int),
        ensures final(self).wf2(), final(self).same_shape(*old(self)), order <= r <= old(self).max_order,
            forall|k: int, x: int| 0 <= k <= order ==> #[trigger] final(self).st().cov(k, x)
                == (old(self).st().cov(k, x) || is_anc(k, x, order as int, page_number as int)),
    {
        debug_assert!(self.get_order_free_mut(order).get(page_number));
        proof { assert(self.free@ =~= old(self).free@); assert(self.st() == old(self).st()); }

        // Update the free index and merge free pages
        self.free_inner(page_number, order)
    }

    // Returns the order of the resulting free block, i.e. the order at which merging stopped.
    pub fn free_inner(&mut self, page_number: u32, order: u8) -> (r: u8)
        requires old(self).wf2(), order <= old(self).max_order, (page_number as int) < old(self).ord(order as int).len,
            old(self).ord(order as int).bit_at(page_number as int),
            !old(self).st().cov(order as int, page_number as int),
            old(self).st().no_free_below(order as int, page_number as int),
        ensures final(self).wf2(), final(self).same_shape(*old(self)), order <= r <= old(self).max_order,
            final(self).st().cov(order as int, page_number as int),
            forall|k: int, x: int| 0 <= k <= order ==> #[trigger] final(self).st().cov(k, x)
                == (old(self).st().cov(k, x) || is_anc(k, x, order as int, page_number as int)),
            forall|j: int, y: int| #[trigger] final(self).st().a(j, y) ==> old(self).st().a(j, y) || j == r as int,
        decreases old(self).max_order - order,
    {
        if order == self.max_order {
            let allocator = self.get_order_free_mut(order);
            allocator.clear(page_number);
            proof { BS::lemma_free_case_clear(old(self).st(), self.st(), order as int, page_number as int); }
            return order;
        }

        let allocator = self.get_order_free_mut(order);
        let buddy = buddy_page(page_number);
        if buddy >= allocator.len() || allocator.get(buddy) {
            allocator.clear(page_number);
            proof { BS::lemma_free_case_clear(old(self).st(), self.st(), order as int, page_number as int); }
            order
        } else {
            // Merge into higher order page
            allocator.set(buddy);
            let ghost s1 = *self;
            proof {
                self.lemma_len_half(order as int);
                BS::lemma_free_case_merge_pre(old(self).st(), s1.st(), order as int, page_number as int);
                // the parent is not marked free (it is not even covered)
                assert(!s1.st().a(order as int + 1, page_number as int / 2));
            }
            let r = self.free_inner(next_higher_order(page_number), order + 1);      // R12: tail call bound to a name
            proof { BS::lemma_free_case_merge_post(old(self).st(), s1.st(), self.st(), order as int, page_number as int, r as int); }
            r
        }
    }

    fn get_order_free_mut(&mut self, order: u8) -> (r: &mut BtreeBitmap)
        requires (order as int) < old(self).free@.len(),
        ensures *r == old(self).free@[order as int],
            final(self).free@ == old(self).free@.update(order as int, *final(r)),
            final(self).len == old(self).len, final(self).max_order == old(self).max_order,
    {
        &mut self.free[order as usize]
    }

    fn get_order_free(&self, order: u8) -> (r: &BtreeBitmap)
        requires (order as int) < self.free@.len(),
        ensures *r == self.free@[order as int],
    {
        &self.free[order as usize]
    }
}




// ghost state of the allocator: the per-order bitmaps and the maximum order
pub struct BS { pub fs: Seq<BtreeBitmap>, pub m: int }
impl BuddyAllocator {
    pub proof fn lemma_st_halving(&self)
        requires self.shape(),
        ensures self.st().halving(), forall|j: int| 0 <= j <= self.st().m ==> #[trigger] self.st().n(j) >= 0,
    {
        assert forall|k: int| 0 <= k < self.st().m implies #[trigger] self.st().n(k + 1) == self.st().n(k) / 2 by {
            self.lemma_len_half(k);
        }
    }
    pub open spec fn st(&self) -> BS { BS { fs: self.free@, m: self.max_order as int } }
    pub open spec fn wf2(&self) -> bool { self.shape() && self.st().inv1() && self.st().inv2() }
}
// ---- layer 2 vocabulary and lemmas (pure spec/proof; appended to bd.rs before main) ----
impl BS {
    pub open spec fn n(&self, k: int) -> int { self.fs[k].leaf().len as int }
    // block (k, q) is marked free
    pub open spec fn a(&self, k: int, q: int) -> bool {
        0 <= k <= self.m && 0 <= q < self.n(k) && !self.fs[k].leaf().bit_at(q)
    }
    // block (k, q) lies inside a free block (itself or an ancestor)
    pub open spec fn cov(&self, k: int, q: int) -> bool
        decreases self.m + 1 - k
    {
        if k < 0 || k > self.m { false } else { self.a(k, q) || self.cov(k + 1, q / 2) }
    }
    pub open spec fn inv1(&self) -> bool {
        forall|k: int, q: int| #[trigger] self.a(k, q) ==> !self.cov(k + 1, q / 2)
    }
    pub open spec fn inv2(&self) -> bool {
        forall|k: int, q: int| #[trigger] self.a(k, q) && k < self.m && 0 <= sbuddy(q) < self.n(k) ==> !self.a(k, sbuddy(q))
    }

    // levels >= k0 carry the same marks in self and o
    pub open spec fn same_from(&self, o: BS, k0: int) -> bool {
        self.m == o.m
        && forall|k: int, q: int| k0 <= k ==> #[trigger] self.a(k, q) == o.a(k, q)
    }
    // self has no free block that o does not have
    pub open spec fn fewer(&self, o: BS) -> bool {
        self.m == o.m
        && forall|k: int, q: int| #[trigger] self.a(k, q) ==> o.a(k, q)
    }

    pub proof fn lemma_cov_frame(&self, o: BS, k0: int, k: int, q: int)
        requires self.same_from(o, k0), k0 <= k,
        ensures self.cov(k, q) == o.cov(k, q),
        decreases self.m + 1 - k,
    {
        if 0 <= k <= self.m {
            assert(self.a(k, q) == o.a(k, q));
            self.lemma_cov_frame(o, k0, k + 1, q / 2);
        }
    }
    pub proof fn lemma_cov_mono(&self, o: BS, k: int, q: int)
        requires self.fewer(o), self.cov(k, q),
        ensures o.cov(k, q),
        decreases self.m + 1 - k,
    {
        if 0 <= k <= self.m {
            if self.a(k, q) { assert(o.a(k, q)); } else { self.lemma_cov_mono(o, k + 1, q / 2); }
        }
    }
    // removing free blocks keeps inv1 and inv2
    pub proof fn lemma_fewer_keeps_inv(&self, o: BS)
        requires self.fewer(o), o.inv1(), o.inv2(), forall|k: int| 0 <= k <= o.m ==> #[trigger] self.n(k) == o.n(k),
        ensures self.inv1(), self.inv2(),
    {
        assert forall|k: int, q: int| #[trigger] self.a(k, q) implies !self.cov(k + 1, q / 2) by {
            assert(o.a(k, q));
            if self.cov(k + 1, q / 2) { self.lemma_cov_mono(o, k + 1, q / 2); }
        }
        assert forall|k: int, q: int| #[trigger] self.a(k, q) && k < self.m && 0 <= sbuddy(q) < self.n(k) implies !self.a(k, sbuddy(q)) by {
            assert(o.a(k, q));
            if self.a(k, sbuddy(q)) { assert(o.a(k, sbuddy(q))); }
        }
    }
}
// (o, q) is an ancestor-or-self of (k, x)
pub open spec fn is_anc(k: int, x: int, o: int, q: int) -> bool
    decreases o - k
{
    if k > o { false } else if k == o { x == q } else { is_anc(k + 1, x / 2, o, q) }
}
pub proof fn lemma_anc_up(k: int, x: int, o: int, q: int)
    requires is_anc(k, x, o, q),
    ensures is_anc(k, x, o + 1, q / 2),
    decreases o - k,
{
    reveal_with_fuel(is_anc, 3);
    if k < o { lemma_anc_up(k + 1, x / 2, o, q); }
}

impl BS {
    // self = o plus the single free block (ko, qo)
    pub open spec fn added(&self, o: BS, ko: int, qo: int) -> bool {
        self.m == o.m && self.a(ko, qo) && !o.a(ko, qo)
        && forall|k: int, q: int| !(k == ko && q == qo) ==> #[trigger] self.a(k, q) == o.a(k, q)
    }
    pub proof fn lemma_cov_up(&self, k: int, x: int, o: int, q: int)
        requires is_anc(k, x, o, q), self.cov(o, q), 0 <= k,
        ensures self.cov(k, x),
        decreases o - k,
    {
        if k < o { self.lemma_cov_up(k + 1, x / 2, o, q); }
    }
    pub proof fn lemma_cov_added(&self, o: BS, ko: int, qo: int, k: int, x: int)
        requires self.added(o, ko, qo),
        ensures self.cov(k, x) == (o.cov(k, x) || (0 <= k && is_anc(k, x, ko, qo))),
        decreases self.m + 1 - k,
    {
        if 0 <= k <= self.m {
            self.lemma_cov_added(o, ko, qo, k + 1, x / 2);
            if !(k == ko && x == qo) { assert(self.a(k, x) == o.a(k, x)); }
        }
    }
    pub proof fn lemma_added_keeps_inv(&self, o: BS, ko: int, qo: int)
        requires
            self.added(o, ko, qo), o.inv1(), o.inv2(),
            forall|k: int| 0 <= k <= o.m ==> #[trigger] self.n(k) == o.n(k),
            !o.cov(ko + 1, qo / 2),
            forall|j: int, y: int| #[trigger] o.a(j, y) && j < ko ==> !is_anc(j, y, ko, qo),
            ko < o.m && 0 <= sbuddy(qo) < o.n(ko) ==> !o.a(ko, sbuddy(qo)),
        ensures self.inv1(), self.inv2(),
    {
        assert forall|k: int, q: int| #[trigger] self.a(k, q) implies !self.cov(k + 1, q / 2) by {
            self.lemma_cov_added(o, ko, qo, k + 1, q / 2);
            if k == ko && q == qo {
            } else {
                assert(o.a(k, q));
                if is_anc(k + 1, q / 2, ko, qo) { assert(is_anc(k, q, ko, qo)); }
            }
        }
        assert forall|k: int, q: int| #[trigger] self.a(k, q) && k < self.m && 0 <= sbuddy(q) < self.n(k) implies !self.a(k, sbuddy(q)) by {
            if k == ko && q == qo {
                assert(self.a(ko, sbuddy(qo)) == o.a(ko, sbuddy(qo)));
            } else {
                assert(o.a(k, q));
                if k == ko && sbuddy(q) == qo {
                    assert(sbuddy(qo) == q);
                } else {
                    assert(self.a(k, sbuddy(q)) == o.a(k, sbuddy(q)));
                }
            }
        }
    }
}
impl BS {
    pub proof fn lemma_alloc_case_a(o: BS, f: BS, k0: int, x: int)
        requires
            o.inv1(), o.inv2(), f.m == o.m, 0 <= k0 <= o.m,
            forall|k: int| 0 <= k <= o.m && k != k0 ==> #[trigger] f.fs[k] == o.fs[k],
            f.fs[k0].leaf().len == o.fs[k0].leaf().len, 0 <= x < o.n(k0),
            !o.fs[k0].leaf().bit_at(x), f.fs[k0].leaf().bit_at(x),
            forall|j: int| 0 <= j < o.n(k0) && j != x ==> #[trigger] f.fs[k0].leaf().bit_at(j) == o.fs[k0].leaf().bit_at(j),
        ensures f.inv1(), f.inv2(), o.cov(k0, x), !f.cov(k0, x),
            forall|k: int, y: int| 0 <= k <= k0 ==> #[trigger] f.cov(k, y) == (o.cov(k, y) && !is_anc(k, y, k0, x)),
            forall|j: int, y: int| #[trigger] f.a(j, y) ==> o.cov(j, y),
    {
        assert forall|k: int| 0 <= k <= o.m implies #[trigger] f.n(k) == o.n(k) by {}
        assert(o.added(f, k0, x)) by {
            assert forall|k: int, q: int| !(k == k0 && q == x) implies #[trigger] o.a(k, q) == f.a(k, q) by {
                if k == k0 { if 0 <= q < o.n(k0) { assert(f.fs[k0].leaf().bit_at(q) == o.fs[k0].leaf().bit_at(q)); } }
            }
        }
        assert(f.fewer(o)) by {
            assert forall|k: int, q: int| #[trigger] f.a(k, q) implies o.a(k, q) by {
                if k == k0 { if q != x { assert(f.fs[k0].leaf().bit_at(q) == o.fs[k0].leaf().bit_at(q)); } }
            }
        }
        f.lemma_fewer_keeps_inv(o);
        assert(o.a(k0, x));
        assert(f.same_from(o, k0 + 1)) by {
            assert forall|k: int, q: int| k0 + 1 <= k implies #[trigger] f.a(k, q) == o.a(k, q) by {}
        }
        f.lemma_cov_frame(o, k0 + 1, k0 + 1, x / 2);
        assert(!o.cov(k0 + 1, x / 2));
        assert(!f.a(k0, x));
        BS::lemma_view_removed(o, f, k0, x);
        assert forall|j: int, y: int| #[trigger] f.a(j, y) implies o.cov(j, y) by { assert(o.a(j, y)); }
    }

    pub proof fn lemma_alloc_case_b(s: BS, s1: BS, f: BS, k0: int, u: int)
        requires
            s.inv1(), s1.inv1(), s1.inv2(), s1.m == s.m, f.m == s.m, 0 <= k0 < s.m, 0 <= u,
            forall|k: int| 0 <= k <= k0 ==> #[trigger] s1.fs[k] == s.fs[k],
            s.cov(k0 + 1, u), !s1.cov(k0 + 1, u),
            forall|j: int| 0 <= j < s.n(k0) ==> #[trigger] s.fs[k0].leaf().bit_at(j),
            forall|k: int| 0 <= k <= s.m && k != k0 ==> #[trigger] f.fs[k] == s1.fs[k],
            f.fs[k0].leaf().len == s1.fs[k0].leaf().len, 2 * u + 1 < s.n(k0),
            !f.fs[k0].leaf().bit_at(2 * u + 1),
            forall|j: int| 0 <= j < s.n(k0) && j != 2 * u + 1 ==> #[trigger] f.fs[k0].leaf().bit_at(j) == s1.fs[k0].leaf().bit_at(j),
            forall|k: int, y: int| 0 <= k <= k0 + 1 ==> #[trigger] s1.cov(k, y) == (s.cov(k, y) && !is_anc(k, y, k0 + 1, u)),
            forall|j: int, y: int| #[trigger] s1.a(j, y) ==> s.cov(j, y),
        ensures f.inv1(), f.inv2(), s.cov(k0, 2 * u), !f.cov(k0, 2 * u),
            forall|k: int, y: int| 0 <= k <= k0 ==> #[trigger] f.cov(k, y) == (s.cov(k, y) && !is_anc(k, y, k0, 2 * u)),
            forall|j: int, y: int| #[trigger] f.a(j, y) ==> s.cov(j, y),
    {
        let q1 = 2 * u + 1;
        assert(s1.fs[k0] == s.fs[k0]);
        assert forall|k: int| 0 <= k <= s.m implies #[trigger] f.n(k) == s1.n(k) by {}
        assert(f.added(s1, k0, q1)) by {
            assert forall|k: int, q: int| !(k == k0 && q == q1) implies #[trigger] f.a(k, q) == s1.a(k, q) by {
                if k == k0 { if 0 <= q < s.n(k0) { assert(f.fs[k0].leaf().bit_at(q) == s1.fs[k0].leaf().bit_at(q)); } }
            }
        }
        assert(q1 / 2 == u && (2 * u) / 2 == u);
        // no free block of s1 lies below the new block
        assert forall|j: int, y: int| #[trigger] s1.a(j, y) && j < k0 implies !is_anc(j, y, k0, q1) by {
            if is_anc(j, y, k0, q1) {
                assert(is_anc(j + 1, y / 2, k0, q1));
                lemma_anc_up(j + 1, y / 2, k0, q1);
                s.lemma_cov_up(j + 1, y / 2, k0 + 1, u);
                assert(s.a(j, y));
            }
        }
        assert(sbuddy(q1) == 2 * u);
        assert(!s1.a(k0, 2 * u));
        f.lemma_added_keeps_inv(s1, k0, q1);
        // the returned block
        assert(s.cov(k0, 2 * u));
        assert(f.same_from(s1, k0 + 1)) by {
            assert forall|k: int, q: int| k0 + 1 <= k implies #[trigger] f.a(k, q) == s1.a(k, q) by {}
        }
        f.lemma_cov_frame(s1, k0 + 1, k0 + 1, u);
        assert(!f.a(k0, 2 * u));
        assert(sbuddy(2 * u) == q1);
        BS::lemma_view_split(s, s1, f, k0, u, 2 * u);
        assert forall|j: int, y: int| #[trigger] f.a(j, y) implies s.cov(j, y) by {
            if j == k0 && y == q1 { assert(s.cov(k0 + 1, q1 / 2)); } else { assert(s1.a(j, y)); }
        }
    }
}

pub proof fn lemma_anc_split(k: int, x: int, o: int, q: int)
    requires k <= o, 0 <= q,
    ensures is_anc(k, x, o + 1, q / 2) == (is_anc(k, x, o, q) || is_anc(k, x, o, sbuddy(q))),
    decreases o - k,
{
    reveal_with_fuel(is_anc, 3);
    if k < o { lemma_anc_split(k + 1, x / 2, o, q); }
}

impl BS {
    // nothing free strictly below (ko, qo)
    pub open spec fn no_free_below(&self, ko: int, qo: int) -> bool {
        forall|j: int, y: int| #[trigger] self.a(j, y) && j < ko ==> !is_anc(j, y, ko, qo)
    }
    // a free block has nothing free below it
    pub proof fn lemma_free_block_no_free_below(&self, ko: int, qo: int)
        requires self.inv1(), self.a(ko, qo),
        ensures self.no_free_below(ko, qo),
    {
        assert forall|j: int, y: int| #[trigger] self.a(j, y) && j < ko implies !is_anc(j, y, ko, qo) by {
            if is_anc(j, y, ko, qo) {
                assert(is_anc(j + 1, y / 2, ko, qo));
                self.lemma_cov_up(j + 1, y / 2, ko, qo);
            }
        }
    }

    // cases (i)/(ii) of free_inner: the block is simply marked free
    pub proof fn lemma_free_case_clear(s: BS, f: BS, ko: int, qo: int)
        requires
            s.inv1(), s.inv2(), f.m == s.m, 0 <= ko <= s.m, 0 <= qo < s.n(ko),
            forall|k: int| 0 <= k <= s.m && k != ko ==> #[trigger] f.fs[k] == s.fs[k],
            f.fs[ko].leaf().len == s.fs[ko].leaf().len,
            s.fs[ko].leaf().bit_at(qo), !f.fs[ko].leaf().bit_at(qo),
            forall|j: int| 0 <= j < s.n(ko) && j != qo ==> #[trigger] f.fs[ko].leaf().bit_at(j) == s.fs[ko].leaf().bit_at(j),
            !s.cov(ko, qo), s.no_free_below(ko, qo),
            ko < s.m && 0 <= sbuddy(qo) < s.n(ko) ==> s.fs[ko].leaf().bit_at(sbuddy(qo)),
        ensures
            f.inv1(), f.inv2(), f.cov(ko, qo),
            forall|k: int, x: int| #[trigger] f.cov(k, x) == (s.cov(k, x) || (0 <= k && is_anc(k, x, ko, qo))),
            forall|j: int, y: int| #[trigger] f.a(j, y) ==> s.a(j, y) || j == ko,
    {
        assert forall|k: int| 0 <= k <= s.m implies #[trigger] f.n(k) == s.n(k) by {}
        assert(f.added(s, ko, qo)) by {
            assert forall|k: int, q: int| !(k == ko && q == qo) implies #[trigger] f.a(k, q) == s.a(k, q) by {
                if k == ko { if 0 <= q < s.n(ko) { assert(f.fs[ko].leaf().bit_at(q) == s.fs[ko].leaf().bit_at(q)); } }
            }
        }
        f.lemma_added_keeps_inv(s, ko, qo);
        assert forall|k: int, x: int| #[trigger] f.cov(k, x) == (s.cov(k, x) || (0 <= k && is_anc(k, x, ko, qo))) by {
            f.lemma_cov_added(s, ko, qo, k, x);
        }
        assert(f.a(ko, qo));
    }

    // case (iii): buddy (ko, b) was free; s1 = s minus the buddy; f = result of freeing the parent in s1
    pub proof fn lemma_free_case_merge_pre(s: BS, s1: BS, ko: int, qo: int)
        requires
            s.inv1(), s.inv2(), s1.m == s.m, 0 <= ko < s.m, 0 <= qo < s.n(ko), 0 <= sbuddy(qo) < s.n(ko),
            forall|k: int| 0 <= k <= s.m && k != ko ==> #[trigger] s1.fs[k] == s.fs[k],
            s1.fs[ko].leaf().len == s.fs[ko].leaf().len,
            s.fs[ko].leaf().bit_at(qo), !s.fs[ko].leaf().bit_at(sbuddy(qo)), s1.fs[ko].leaf().bit_at(sbuddy(qo)),
            forall|j: int| 0 <= j < s.n(ko) && j != sbuddy(qo) ==> #[trigger] s1.fs[ko].leaf().bit_at(j) == s.fs[ko].leaf().bit_at(j),
            !s.cov(ko, qo), s.no_free_below(ko, qo),
        ensures
            s1.inv1(), s1.inv2(), s.added(s1, ko, sbuddy(qo)),
            !s1.cov(ko + 1, qo / 2), s1.no_free_below(ko + 1, qo / 2),
    {
        let b = sbuddy(qo);
        assert forall|k: int| 0 <= k <= s.m implies #[trigger] s1.n(k) == s.n(k) by {}
        assert(s.added(s1, ko, b)) by {
            assert forall|k: int, q: int| !(k == ko && q == b) implies #[trigger] s.a(k, q) == s1.a(k, q) by {
                if k == ko { if 0 <= q < s.n(ko) { assert(s1.fs[ko].leaf().bit_at(q) == s.fs[ko].leaf().bit_at(q)); } }
            }
        }
        assert(s1.fewer(s)) by {
            assert forall|k: int, q: int| #[trigger] s1.a(k, q) implies s.a(k, q) by {
                if !(k == ko && q == b) { assert(s.a(k, q) == s1.a(k, q)); }
            }
        }
        s1.lemma_fewer_keeps_inv(s);
        if s1.cov(ko + 1, qo / 2) { s1.lemma_cov_mono(s, ko + 1, qo / 2); }
        s.lemma_free_block_no_free_below(ko, b);
        assert forall|j: int, y: int| #[trigger] s1.a(j, y) && j < ko + 1 implies !is_anc(j, y, ko + 1, qo / 2) by {
            if is_anc(j, y, ko + 1, qo / 2) {
                lemma_anc_split(j, y, ko, qo);
                assert(s.a(j, y));
                if j == ko {
                    reveal_with_fuel(is_anc, 2);
                    assert(y == qo || y == b);
                }
            }
        }
    }

    pub proof fn lemma_free_case_merge_post(s: BS, s1: BS, f: BS, ko: int, qo: int, r: int)
        requires
            s.added(s1, ko, sbuddy(qo)), 0 <= ko, 0 <= qo,
            forall|j: int, y: int| #[trigger] f.a(j, y) ==> s1.a(j, y) || j == r,
            forall|k: int, x: int| 0 <= k <= ko + 1 ==> #[trigger] f.cov(k, x) == (s1.cov(k, x) || is_anc(k, x, ko + 1, qo / 2)),
        ensures
            forall|k: int, x: int| 0 <= k <= ko ==> #[trigger] f.cov(k, x) == (s.cov(k, x) || is_anc(k, x, ko, qo)),
            f.cov(ko, qo),
            forall|j: int, y: int| #[trigger] f.a(j, y) ==> s.a(j, y) || j == r,
    {
        assert forall|j: int, y: int| #[trigger] f.a(j, y) implies s.a(j, y) || j == r by {
            if j != r { assert(s1.a(j, y)); if !(j == ko && y == sbuddy(qo)) { assert(s.a(j, y) == s1.a(j, y)); } }
        }
        assert forall|k: int, x: int| 0 <= k <= ko implies #[trigger] f.cov(k, x) == (s.cov(k, x) || is_anc(k, x, ko, qo)) by {
            s.lemma_cov_added(s1, ko, sbuddy(qo), k, x);
            lemma_anc_split(k, x, ko, qo);
        }
        reveal_with_fuel(is_anc, 2);
        assert(is_anc(ko, qo, ko, qo));
    }
}

impl BS {
    // the per-order lengths halve: n(k+1) == n(k) / 2
    pub open spec fn halving(&self) -> bool {
        forall|k: int| 0 <= k < self.m ==> #[trigger] self.n(k + 1) == self.n(k) / 2
    }
    // an index at or beyond the end of its level is not inside any free block
    pub proof fn lemma_out_of_range_not_cov(&self, k: int, x: int)
        requires self.halving(), 0 <= k, x >= self.n(k), forall|j: int| 0 <= j <= self.m ==> #[trigger] self.n(j) >= 0,
        ensures !self.cov(k, x),
        decreases self.m + 1 - k,
    {
        reveal_with_fuel(BS::cov, 2);
        if k <= self.m {
            assert(!self.a(k, x));
            if k < self.m {
                assert(self.n(k + 1) == self.n(k) / 2);
                self.lemma_out_of_range_not_cov(k + 1, x / 2);
            } else {
                assert(!self.cov(k + 1, x / 2));
            }
        }
    }

    // record_alloc, split case: parent (k0+1, u) was taken out of a free block by the recursive call;
    // `keep` stays allocated, its buddy `give` becomes free
    pub proof fn lemma_record_case_split(s: BS, s1: BS, f: BS, k0: int, u: int, keep: int)
        requires
            s.inv1(), s1.inv1(), s1.inv2(), s1.m == s.m, f.m == s.m, 0 <= k0 < s.m, 0 <= u, 0 <= keep,
            keep / 2 == u, 0 <= sbuddy(keep) < s.n(k0), keep < s.n(k0),
            forall|k: int| 0 <= k <= k0 ==> #[trigger] s1.fs[k] == s.fs[k],
            s.cov(k0 + 1, u), !s1.cov(k0 + 1, u),
            s.fs[k0].leaf().bit_at(keep),
            forall|k: int| 0 <= k <= s.m && k != k0 ==> #[trigger] f.fs[k] == s1.fs[k],
            f.fs[k0].leaf().len == s1.fs[k0].leaf().len,
            !f.fs[k0].leaf().bit_at(sbuddy(keep)),
            forall|j: int| 0 <= j < s.n(k0) && j != sbuddy(keep) ==> #[trigger] f.fs[k0].leaf().bit_at(j) == s1.fs[k0].leaf().bit_at(j),
            forall|k: int, y: int| 0 <= k <= k0 + 1 ==> #[trigger] s1.cov(k, y) == (s.cov(k, y) && !is_anc(k, y, k0 + 1, u)),
        ensures f.inv1(), f.inv2(), s.cov(k0, keep), !f.cov(k0, keep),
            forall|k: int, y: int| 0 <= k <= k0 ==> #[trigger] f.cov(k, y) == (s.cov(k, y) && !is_anc(k, y, k0, keep)),
    {
        let give = sbuddy(keep);
        assert(give / 2 == u);
        assert(sbuddy(give) == keep);
        assert(s1.fs[k0] == s.fs[k0]);
        assert forall|k: int| 0 <= k <= s.m implies #[trigger] f.n(k) == s1.n(k) by {}
        // the sibling cannot have been free: its parent was covered
        if s.a(k0, give) { assert(!s.cov(k0 + 1, give / 2)); }
        assert(f.added(s1, k0, give)) by {
            assert forall|k: int, q: int| !(k == k0 && q == give) implies #[trigger] f.a(k, q) == s1.a(k, q) by {
                if k == k0 { if 0 <= q < s.n(k0) { assert(f.fs[k0].leaf().bit_at(q) == s1.fs[k0].leaf().bit_at(q)); } }
            }
        }
        assert forall|j: int, y: int| #[trigger] s1.a(j, y) && j < k0 implies !is_anc(j, y, k0, give) by {
            if is_anc(j, y, k0, give) {
                assert(is_anc(j + 1, y / 2, k0, give));
                lemma_anc_up(j + 1, y / 2, k0, give);
                s.lemma_cov_up(j + 1, y / 2, k0 + 1, u);
                assert(s.a(j, y));
            }
        }
        assert(!s1.a(k0, keep));
        f.lemma_added_keeps_inv(s1, k0, give);
        assert(s.cov(k0, keep));
        assert(f.same_from(s1, k0 + 1)) by {
            assert forall|k: int, q: int| k0 + 1 <= k implies #[trigger] f.a(k, q) == s1.a(k, q) by {}
        }
        f.lemma_cov_frame(s1, k0 + 1, k0 + 1, u);
        assert(!f.a(k0, keep));
        BS::lemma_view_split(s, s1, f, k0, u, keep);
    }
}
pub proof fn lemma_anc_unique(k: int, x: int, o: int, q1: int, q2: int)
    requires is_anc(k, x, o, q1), is_anc(k, x, o, q2),
    ensures q1 == q2,
    decreases o - k,
{
    if k < o { lemma_anc_unique(k + 1, x / 2, o, q1, q2); }
}

impl BS {
    // nothing at or below an uncovered block with nothing free below it is covered
    pub proof fn lemma_not_cov_below(&self, k: int, x: int, o: int, q: int)
        requires is_anc(k, x, o, q), !self.cov(o, q), self.no_free_below(o, q), 0 <= k,
        ensures !self.cov(k, x),
        decreases o - k,
    {
        if k < o {
            self.lemma_not_cov_below(k + 1, x / 2, o, q);
            if self.a(k, x) { assert(!is_anc(k, x, o, q)); }
        }
    }

    // view clause when exactly the free block (ko, qo) is removed (alloc case A, record_alloc "set" case)
    pub proof fn lemma_view_removed(o: BS, f: BS, ko: int, qo: int)
        requires o.added(f, ko, qo), o.inv1(), !f.cov(ko, qo),
        ensures forall|k: int, x: int| 0 <= k <= ko ==> #[trigger] f.cov(k, x) == (o.cov(k, x) && !is_anc(k, x, ko, qo)),
    {
        o.lemma_free_block_no_free_below(ko, qo);
        assert(f.no_free_below(ko, qo)) by {
            assert forall|j: int, y: int| #[trigger] f.a(j, y) && j < ko implies !is_anc(j, y, ko, qo) by {
                assert(o.a(j, y));
            }
        }
        assert forall|k: int, x: int| 0 <= k <= ko implies #[trigger] f.cov(k, x) == (o.cov(k, x) && !is_anc(k, x, ko, qo)) by {
            o.lemma_cov_added(f, ko, qo, k, x);
            if is_anc(k, x, ko, qo) { f.lemma_not_cov_below(k, x, ko, qo); }
        }
    }

    // view clause for the split case: s1 = s minus everything under (ko+1, u); f = s1 plus block (ko, give); keep = buddy of give
    pub proof fn lemma_view_split(s: BS, s1: BS, f: BS, ko: int, u: int, keep: int)
        requires
            0 <= ko, 0 <= keep, keep / 2 == u, f.added(s1, ko, sbuddy(keep)), s.cov(ko + 1, u),
            forall|k: int, x: int| 0 <= k <= ko + 1 ==> #[trigger] s1.cov(k, x) == (s.cov(k, x) && !is_anc(k, x, ko + 1, u)),
        ensures
            forall|k: int, x: int| 0 <= k <= ko ==> #[trigger] f.cov(k, x) == (s.cov(k, x) && !is_anc(k, x, ko, keep)),
    {
        let give = sbuddy(keep);
        assert forall|k: int, x: int| 0 <= k <= ko implies #[trigger] f.cov(k, x) == (s.cov(k, x) && !is_anc(k, x, ko, keep)) by {
            f.lemma_cov_added(s1, ko, give, k, x);
            lemma_anc_split(k, x, ko, keep);
            assert(s1.cov(k, x) == (s.cov(k, x) && !is_anc(k, x, ko + 1, u)));
            if is_anc(k, x, ko, give) {
                lemma_anc_up(k, x, ko, give);
                assert(give / 2 == u);
                s.lemma_cov_up(k, x, ko + 1, u);
                if is_anc(k, x, ko, keep) { lemma_anc_unique(k, x, ko, give, keep); }
            }
        }
    }
}

pub proof fn lemma_anc_pages(p: int, k1: nat, k2: nat)
    requires 0 <= p, k1 <= k2,
    ensures is_anc(k1 as int, p / pow2(k1), k2 as int, p / pow2(k2)),
    decreases k2 - k1,
{
    if k1 < k2 {
        lemma_half(p, k1);
        lemma_anc_pages(p, k1 + 1, k2);
    }
}
pub proof fn lemma_div_block(p: int, q: int, sz: int)
    requires sz > 0, 0 <= p, q == p / sz,
    ensures q * sz <= p < (q + 1) * sz, 0 <= q,
{
    vstd::arithmetic::div_mod::lemma_fundamental_div_mod(p, sz);
    vstd::arithmetic::div_mod::lemma_mod_bound(p, sz);
    assert(p == sz * (p / sz) + p % sz);
    assert(q * sz == sz * q) by (nonlinear_arith);
    assert((q + 1) * sz == q * sz + sz) by (nonlinear_arith);
    vstd::arithmetic::div_mod::lemma_div_pos_is_pos(p, sz);
}
pub proof fn lemma_in_block_div(x: int, q: int, sz: int)
    requires sz > 0, q * sz <= x < (q + 1) * sz,
    ensures x / sz == q,
{
    let r = x - q * sz;
    assert(x == sz * q + r) by (nonlinear_arith) requires r == x - q * sz;
    assert(0 <= r < sz) by (nonlinear_arith) requires r == x - q * sz, q * sz <= x < (q + 1) * sz;
    vstd::arithmetic::div_mod::lemma_fundamental_div_mod_converse(x, sz, q, r);
}

impl BS {
    // cov(0, p) follows the chain of blocks containing page p
    pub proof fn lemma_cov_chain(&self, p: int, j: nat)
        requires 0 <= p, forall|i: int| 0 <= i < j ==> !#[trigger] self.a(i, p / pow2(i as nat)),
        ensures self.cov(0, p) == self.cov(j as int, p / pow2(j)),
        decreases j,
    {
        if j > 0 {
            self.lemma_cov_chain(p, (j - 1) as nat);
            lemma_half(p, (j - 1) as nat);
            assert(!self.a(j - 1, p / pow2((j - 1) as nat)));
        }
    }
    pub proof fn lemma_page_in_free_block(&self, p: int, k: nat)
        requires 0 <= p, self.a(k as int, p / pow2(k)),
        ensures self.cov(0, p),
    {
        lemma_anc_pages(p, 0, k);
        assert(pow2(0) == 1);
        self.lemma_cov_up(0, p, k as int, p / pow2(k));
    }
    pub proof fn lemma_two_orders(&self, p: int, k1: nat, k2: nat)
        requires self.inv1(), 0 <= p, k1 < k2, self.a(k1 as int, p / pow2(k1)), self.a(k2 as int, p / pow2(k2)),
        ensures false,
    {
        lemma_anc_pages(p, k1 + 1, k2);
        lemma_half(p, k1);
        self.lemma_cov_up(k1 as int + 1, p / pow2(k1 + 1), k2 as int, p / pow2(k2));
    }
}

#[verifier::external_body]
pub fn pow2_u32(e: u8) -> (r: u32) requires e <= 20 ensures r as int == pow2(e as nat), 1 <= r <= 0x10_0000 { 2u32.pow(e.into()) }

impl RegionTracker {
    pub open spec fn regions(&self) -> u32 { self.order_trackers@[0].leaf().len }
    pub open spec fn may_be_free(&self, o: int, r: int) -> bool { !self.order_trackers@[o].leaf().bit_at(r) }
    pub open spec fn wf(&self) -> bool {
        1 <= self.order_trackers@.len() <= 32
        && forall|o: int| 0 <= o < self.order_trackers@.len() ==> (#[trigger] self.order_trackers@[o]).wf()
               && self.order_trackers@[o].leaf().len == self.order_trackers@[0].leaf().len
    }
}
// Tracks the page orders that MAY BE free in each region. This data structure is optimistic, so
// a region may not actually have a page free for a given order
pub struct RegionTracker {
    pub order_trackers: Vec<BtreeBitmap>,
}

impl RegionTracker {
    pub fn find_free(&self, order: u8) -> (r: Option<u32>)
        requires self.wf(), (order as int) < self.order_trackers@.len(),
        ensures match r {
            Some(x) => x < self.regions() && self.may_be_free(order as int, x as int)
                && forall|y: int| 0 <= y < x ==> !#[trigger] self.may_be_free(order as int, y),
            None => forall|y: int| 0 <= y < self.regions() ==> !#[trigger] self.may_be_free(order as int, y),
        },
    {
        self.order_trackers[order as usize].find_first_unset()
    }

    pub fn mark_free(&mut self, order: u8, region: u32)
        requires old(self).wf(), (order as int) < old(self).order_trackers@.len(), region < old(self).regions(),
        ensures final(self).wf(), final(self).regions() == old(self).regions(),
            final(self).order_trackers@.len() == old(self).order_trackers@.len(),
            forall|o: int, r: int| 0 <= o < old(self).order_trackers@.len() && 0 <= r < old(self).regions() ==>
                #[trigger] final(self).may_be_free(o, r) == (old(self).may_be_free(o, r) || (o <= order && r == region)),
    {
        let order: usize = order.into();
        for i in iter: 0..=order
            invariant
                self.wf(), self.regions() == old(self).regions(), order < self.order_trackers@.len(),
                self.order_trackers@.len() == old(self).order_trackers@.len(), region < self.regions(),
                forall|o: int, r: int| 0 <= o < old(self).order_trackers@.len() && 0 <= r < old(self).regions() ==>
                    #[trigger] self.may_be_free(o, r) == (old(self).may_be_free(o, r) || (o < i && r == region)),
        {
            let ghost pre = *self;
            assert(self.order_trackers@[i as int].wf());
            self.order_trackers[i].clear(region);
            proof {
                assert forall|o: int| 0 <= o < self.order_trackers@.len() && o != i implies #[trigger] self.order_trackers@[o] == pre.order_trackers@[o] by {}
                assert forall|o: int, r: int| 0 <= o < old(self).order_trackers@.len() && 0 <= r < old(self).regions() implies
                    #[trigger] self.may_be_free(o, r) == (old(self).may_be_free(o, r) || (o < i + 1 && r == region)) by {
                    assert(pre.may_be_free(o, r) == (old(self).may_be_free(o, r) || (o < i && r == region)));
                }
            }
        }
    }

    pub fn mark_full(&mut self, order: u8, region: u32)
        requires old(self).wf(), (order as int) < old(self).order_trackers@.len(), region < old(self).regions(),
        ensures final(self).wf(), final(self).regions() == old(self).regions(),
            final(self).order_trackers@.len() == old(self).order_trackers@.len(),
            forall|o: int, r: int| 0 <= o < old(self).order_trackers@.len() && 0 <= r < old(self).regions() ==>
                #[trigger] final(self).may_be_free(o, r) == (old(self).may_be_free(o, r) && !(o >= order && r == region)),
    {
        let order: usize = order.into();
        assert!(order < self.order_trackers.len());
        let ghost n = self.order_trackers@.len();
        for i in iter: order..self.order_trackers.len()
            invariant
                self.wf(), self.regions() == old(self).regions(), n == old(self).order_trackers@.len(),
                self.order_trackers@.len() == n, region < self.regions(), order <= n,
                forall|o: int, r: int| 0 <= o < n && 0 <= r < old(self).regions() ==>
                    #[trigger] self.may_be_free(o, r) == (old(self).may_be_free(o, r) && !(order <= o < i && r == region)),
        {
            let ghost pre = *self;
            assert(self.order_trackers@[i as int].wf());
            self.order_trackers[i].set(region);
            proof {
                assert forall|o: int| 0 <= o < self.order_trackers@.len() && o != i implies #[trigger] self.order_trackers@[o] == pre.order_trackers@[o] by {}
                assert forall|o: int, r: int| 0 <= o < n && 0 <= r < old(self).regions() implies
                    #[trigger] self.may_be_free(o, r) == (old(self).may_be_free(o, r) && !(order <= o < i + 1 && r == region)) by {
                    assert(pre.may_be_free(o, r) == (old(self).may_be_free(o, r) && !(order <= o < i && r == region)));
                }
            }
        }
    }

    fn len(&self) -> (r: u32)
        requires self.wf(),
        ensures r == self.regions(),
    {
        self.order_trackers[0].len()
    }
}


// ---------------------------------------------------------------- probe-only declarations
pub const MAX_PAGE_INDEX: u32 = 0x000F_FFFF;
#[verifier::external_body]
pub struct DatabaseHeader { _p: u8 }
#[verifier::external_body]
pub struct StorageError { _p: u8 }
pub type Result<T> = core::result::Result<T, StorageError>;

pub struct PageNumber { pub region: u32, pub page_index: u32, pub page_order: u8 }
impl PageNumber {
    pub fn new(region: u32, page_index: u32, page_order: u8) -> (r: Self)
        requires region <= 0x000F_FFFF, page_index <= MAX_PAGE_INDEX, page_order <= MAX_MAX_PAGE_ORDER,
        ensures r.region == region, r.page_index == page_index, r.page_order == page_order,
    {
        debug_assert!(region <= 0x000F_FFFF);
        debug_assert!(page_index <= MAX_PAGE_INDEX);
        debug_assert!(page_order <= MAX_MAX_PAGE_ORDER);
        Self {
            region,
            page_index,
            page_order,
        }
    }
}

pub struct Allocators { pub region_tracker: RegionTracker, pub region_allocators: Vec<BuddyAllocator> }
pub struct InMemoryState { pub header: DatabaseHeader, pub allocators: Option<Allocators>, pub read_from_secondary: bool }

impl BuddyAllocator {
    // ASSUMED in this probe (alloc_lowest is not verified yet): same contract as `alloc`
    #[verifier::external_body]
    pub fn alloc_lowest(&mut self, order: u8) -> (r: Option<u32>)
        requires old(self).wf2(),
        ensures final(self).wf2(), final(self).same_shape(*old(self)),
            r matches Some(p) ==> order <= old(self).max_order && (p as int) < old(self).ord(order as int).len
                && old(self).st().cov(order as int, p as int) && !final(self).st().cov(order as int, p as int),
            r matches Some(p) ==> forall|k: int, y: int| 0 <= k <= order ==> #[trigger] final(self).st().cov(k, y)
                    == (old(self).st().cov(k, y) && !is_anc(k, y, order as int, p as int)),
            r matches Some(p) ==> forall|j: int, y: int| #[trigger] final(self).st().a(j, y) ==> old(self).st().cov(j, y),
            r is None ==> final(self).free@ == old(self).free@,
            r is None ==> forall|k: int, q: int| order <= k ==> !#[trigger] old(self).st().a(k, q),
    { unimplemented!() }
}

impl Allocators {
    pub open spec fn nreg(&self) -> int { self.region_allocators@.len() as int }
    pub open spec fn has_free_ge(&self, r: int, o: int) -> bool {
        exists|k: int, q: int| o <= k && #[trigger] self.region_allocators@[r].st().a(k, q)
    }
    pub open spec fn wf(&self) -> bool {
        self.region_tracker.wf() && self.region_tracker.order_trackers@.len() == 21
        && self.nreg() <= self.region_tracker.regions()
        && self.region_tracker.regions() <= 0x10_0000
        && (forall|r: int| 0 <= r < self.nreg() ==> (#[trigger] self.region_allocators@[r]).wf2() && self.region_allocators@[r].len <= 0x10_0000)
        // tracker only ever points at existing regions
        && (forall|o: int, r: int| 0 <= o < 21 && 0 <= r < self.region_tracker.regions() && #[trigger] self.region_tracker.may_be_free(o, r) ==> r < self.nreg())
    }
    // TRK: a region holding a free block of order >= o is never reported full at order o
    pub open spec fn trk(&self) -> bool {
        forall|r: int, o: int| 0 <= r < self.nreg() && 0 <= o < 21 && #[trigger] self.has_free_ge(r, o) ==> self.region_tracker.may_be_free(o, r)
    }
}

impl BS {
    pub proof fn lemma_cov_has_free(&self, j: int, y: int)
        requires self.cov(j, y), 0 <= j,
        ensures exists|k: int, q: int| j <= k && #[trigger] self.a(k, q),
        decreases self.m + 1 - j,
    {
        if !self.a(j, y) { self.lemma_cov_has_free(j + 1, y / 2); }
    }
}
impl BuddyAllocator {
    pub proof fn lemma_len_bounds(&self, k: int)
        requires self.shape(), self.len <= 0x10_0000, 0 <= k <= self.max_order,
        ensures self.ord(k).len <= 0x10_0000,
    {
        lemma_pow2_pos(k as nat);
        assert(self.free@[k].leaf().len as int == self.len as int / pow2(k as nat));
        vstd::arithmetic::div_mod::lemma_div_is_ordered_by_denominator(self.len as int, 1, pow2(k as nat));
    }
}
impl Allocators {
    // a successful alloc in region c keeps TRK: every free block afterwards lies under a block that was free before
    pub proof fn lemma_trk_after_alloc(a: Allocators, b: Allocators, c: int)
        requires a.wf(), a.trk(), 0 <= c < a.nreg(), b.region_tracker == a.region_tracker,
            b.region_allocators@.len() == a.region_allocators@.len(),
            forall|r: int| 0 <= r < a.nreg() && r != c ==> #[trigger] b.region_allocators@[r] == a.region_allocators@[r],
            b.region_allocators@[c].wf2(), b.region_allocators@[c].len == a.region_allocators@[c].len,
            forall|j: int, y: int| #[trigger] b.region_allocators@[c].st().a(j, y) ==> a.region_allocators@[c].st().cov(j, y),
        ensures b.wf(), b.trk(),
    {
        assert forall|r: int, o: int| 0 <= r < b.nreg() && 0 <= o < 21 && #[trigger] b.has_free_ge(r, o) implies b.region_tracker.may_be_free(o, r) by {
            if r == c {
                let (k, q) = choose|k: int, q: int| o <= k && #[trigger] b.region_allocators@[c].st().a(k, q);
                a.region_allocators@[c].st().lemma_cov_has_free(k, q);
                assert(a.has_free_ge(c, o));
            } else {
                assert(a.has_free_ge(r, o));
            }
        }
    }
    // two allocator sets with the same tracker and the same ghost states are interchangeable
    pub proof fn lemma_same_states(a: Allocators, b: Allocators)
        requires a.wf(), a.trk(), b.region_tracker == a.region_tracker, b.nreg() == a.nreg(),
            forall|r: int| 0 <= r < a.nreg() ==> (#[trigger] b.region_allocators@[r]).st() == a.region_allocators@[r].st()
                && b.region_allocators@[r].wf2() && b.region_allocators@[r].len == a.region_allocators@[r].len,
        ensures b.wf(), b.trk(),
    {
        assert forall|r: int, o: int| 0 <= r < b.nreg() && 0 <= o < 21 && #[trigger] b.has_free_ge(r, o) implies b.region_tracker.may_be_free(o, r) by {
            assert(a.has_free_ge(r, o));
        }
    }
    // alloc(o) failed in region c (nothing of order >= o is free there); marking it full at orders >= o keeps TRK
    pub proof fn lemma_trk_after_full(a: Allocators, b: Allocators, c: int, o: int)
        requires a.wf(), a.trk(), 0 <= c < a.nreg(), 0 <= o < 21,
            b.region_allocators == a.region_allocators, b.region_tracker.wf(),
            b.region_tracker.regions() == a.region_tracker.regions(), b.region_tracker.order_trackers@.len() == 21,
            forall|k: int, q: int| o <= k ==> !#[trigger] a.region_allocators@[c].st().a(k, q),
            forall|o2: int, r: int| 0 <= o2 < 21 && 0 <= r < a.region_tracker.regions() ==>
                #[trigger] b.region_tracker.may_be_free(o2, r) == (a.region_tracker.may_be_free(o2, r) && !(o2 >= o && r == c)),
        ensures b.wf(), b.trk(),
    {
        assert forall|r: int, o2: int| 0 <= r < b.nreg() && 0 <= o2 < 21 && #[trigger] b.has_free_ge(r, o2) implies b.region_tracker.may_be_free(o2, r) by {
            assert(a.has_free_ge(r, o2));
        }
    }
}
impl InMemoryState {
    pub fn allocators_mut(&mut self) -> (r: &mut Allocators)
        requires old(self).allocators.is_some(),
        ensures *r == old(self).allocators.unwrap(), final(self).allocators == Some(*final(r)),
    {
        self.allocators
            .as_mut()
            .expect("allocators have not been loaded yet")
    }

    pub fn get_region_mut(&mut self, region: u32) -> (r: &mut BuddyAllocator)
        requires old(self).allocators.is_some(), (region as int) < old(self).allocators.unwrap().nreg(),
        ensures *r == old(self).allocators.unwrap().region_allocators@[region as int],
            final(self).allocators.is_some(),
            final(self).allocators.unwrap().region_tracker == old(self).allocators.unwrap().region_tracker,
            final(self).allocators.unwrap().region_allocators@ == old(self).allocators.unwrap().region_allocators@.update(region as int, *final(r)),
    {
        &mut self.allocators_mut().region_allocators[region as usize]
    }

    pub fn get_region_tracker_mut(&mut self) -> (r: &mut RegionTracker)
        requires old(self).allocators.is_some(),
        ensures *r == old(self).allocators.unwrap().region_tracker,
            final(self).allocators.is_some(),
            final(self).allocators.unwrap().region_tracker == *final(r),
            final(self).allocators.unwrap().region_allocators == old(self).allocators.unwrap().region_allocators,
    {
        &mut self.allocators_mut().region_tracker
    }


    #[verifier::exec_allows_no_decreases_clause]
    pub fn allocate_helper_retry(
        state: &mut InMemoryState,
        required_order: u8,
        lowest: bool,
    ) -> (res: Result<Option<PageNumber>>)
        requires old(state).allocators.is_some(), old(state).allocators.unwrap().wf(), old(state).allocators.unwrap().trk(),
            required_order <= 20,
        ensures final(state).allocators.is_some(), final(state).allocators.unwrap().wf(), final(state).allocators.unwrap().trk(),
            final(state).allocators.unwrap().nreg() == old(state).allocators.unwrap().nreg(),
            res is Ok,
            res matches Ok(Some(pn)) ==> pn.page_order == required_order && (pn.region as int) < old(state).allocators.unwrap().nreg()
                && old(state).allocators.unwrap().region_allocators@[pn.region as int].st().cov(required_order as int, pn.page_index as int)
                && !final(state).allocators.unwrap().region_allocators@[pn.region as int].st().cov(required_order as int, pn.page_index as int),
            // refused only when no region holds a free block of that order or larger
            res matches Ok(None) ==> forall|r: int, k: int, q: int| 0 <= r < old(state).allocators.unwrap().nreg() && required_order <= k
                ==> !#[trigger] old(state).allocators.unwrap().region_allocators@[r].st().a(k, q),
    {
        loop
            invariant
                state.allocators.is_some(), state.allocators.unwrap().wf(), state.allocators.unwrap().trk(), required_order <= 20,
                state.allocators.unwrap().nreg() == old(state).allocators.unwrap().nreg(),
                forall|r: int| 0 <= r < state.allocators.unwrap().nreg() ==>
                    (#[trigger] state.allocators.unwrap().region_allocators@[r]).st() == old(state).allocators.unwrap().region_allocators@[r].st(),
        {
            let ghost a0 = state.allocators.unwrap();
            let Some(candidate_region) = state.get_region_tracker_mut().find_free(required_order)
            else {
                proof {
                    let o0 = old(state).allocators.unwrap();
                    assert forall|r: int, k: int, q: int| 0 <= r < o0.nreg() && required_order <= k
                        implies !#[trigger] o0.region_allocators@[r].st().a(k, q) by {
                        assert(a0.region_allocators@[r].st() == o0.region_allocators@[r].st());
                        if a0.region_allocators@[r].st().a(k, q) {
                            assert(a0.has_free_ge(r, required_order as int));
                            assert(a0.region_tracker.may_be_free(required_order as int, r));
                        }
                    }
                }
                return Ok(None);
            };
            proof { assert(a0.region_tracker.may_be_free(required_order as int, candidate_region as int)); }
            let region = state.get_region_mut(candidate_region);
            let r = if lowest {
                region.alloc_lowest(required_order)
            } else {
                region.alloc(required_order)
            };
            let ghost a1 = state.allocators.unwrap();
            if let Some(page) = r {
                proof {
                    Allocators::lemma_trk_after_alloc(a0, a1, candidate_region as int);
                    a0.region_allocators@[candidate_region as int].lemma_len_bounds(required_order as int);
                }
                return Ok(Some(PageNumber::new(
                    candidate_region,
                    page,
                    required_order,
                )));
            }
            // Mark the region, if it's full
            proof {
                let c = candidate_region as int;
                assert(a1.region_allocators@[c].free@ == a0.region_allocators@[c].free@);
                assert(a1.region_allocators@[c].st() == a0.region_allocators@[c].st());
                assert forall|r: int| 0 <= r < a1.nreg() implies (#[trigger] a1.region_allocators@[r]).st() == a0.region_allocators@[r].st() by {}
                Allocators::lemma_same_states(a0, a1);
            }
            state
                .get_region_tracker_mut()
                .mark_full(required_order, candidate_region);
            proof { Allocators::lemma_trk_after_full(a1, state.allocators.unwrap(), candidate_region as int, required_order as int); }
        }
    }

}

impl BS {
    // all pages of block (o, q) are free
    pub open spec fn block_all_free(&self, o: int, q: int) -> bool {
        forall|p: int| #[trigger] is_anc(0, p, o, q) ==> self.cov(0, p)
    }
    // Bridge (needs I2): an in-range aligned block whose pages are all free lies inside a free block of at least its order
    pub proof fn lemma_bridge(&self, o: int, q: int)
        requires self.inv2(), self.halving(), 0 <= o <= self.m, 0 <= q < self.n(o), self.block_all_free(o, q),
            forall|j: int| 0 <= j <= self.m ==> #[trigger] self.n(j) >= 0,
        ensures self.cov(o, q),
        decreases o,
    {
        reveal_with_fuel(is_anc, 2);
        if o == 0 {
            assert(is_anc(0, q, 0, q));
        } else {
            assert(self.n(o - 1 + 1) == self.n(o - 1) / 2);
            let c0 = 2 * q;
            let c1 = 2 * q + 1;
            assert(c0 / 2 == q && c1 / 2 == q);
            assert forall|p: int| #[trigger] is_anc(0, p, o - 1, c0) implies self.cov(0, p) by { lemma_anc_up(0, p, o - 1, c0); }
            assert forall|p: int| #[trigger] is_anc(0, p, o - 1, c1) implies self.cov(0, p) by { lemma_anc_up(0, p, o - 1, c1); }
            self.lemma_bridge(o - 1, c0);
            self.lemma_bridge(o - 1, c1);
            if !self.cov(o, q) {
                assert(self.a(o - 1, c0));
                assert(self.a(o - 1, c1));
                assert(sbuddy(c0) == c1);
            }
        }
    }
    // "a request is refused only when no aligned free block of that size exists"
    pub proof fn lemma_refusal_justified(&self, o: int, q: int)
        requires self.inv2(), self.halving(), 0 <= o <= self.m, 0 <= q < self.n(o),
            forall|j: int| 0 <= j <= self.m ==> #[trigger] self.n(j) >= 0,
            forall|k: int, x: int| o <= k ==> !#[trigger] self.a(k, x),          // what alloc(o) == None guarantees
        ensures !self.block_all_free(o, q),
    {
        if self.block_all_free(o, q) {
            self.lemma_bridge(o, q);
            self.lemma_cov_has_free(o, q);
        }
    }
}

impl BS {
    // the state BuddyAllocator::new leaves behind: greedy decomposition of [0, N) into maximal aligned blocks
    pub open spec fn greedy(&self) -> bool {
        forall|k: int, q: int| #[trigger] self.a(k, q) <==>
            (0 <= k <= self.m && 0 <= q < self.n(k) && (k == self.m || (q == self.n(k) - 1 && self.n(k) % 2 == 1)))
    }
    pub proof fn lemma_greedy_wf(&self)
        requires self.greedy(), self.halving(), 0 <= self.m, forall|j: int| 0 <= j <= self.m ==> #[trigger] self.n(j) >= 0,
        ensures self.inv1(), self.inv2(),
    {
        assert forall|k: int, q: int| #[trigger] self.a(k, q) implies !self.cov(k + 1, q / 2) by {
            if k < self.m {
                assert(self.n(k + 1) == self.n(k) / 2);
                assert(q / 2 == self.n(k + 1));
                self.lemma_out_of_range_not_cov(k + 1, q / 2);
            } else {
                reveal_with_fuel(BS::cov, 2);
            }
        }
        assert forall|k: int, q: int| #[trigger] self.a(k, q) && k < self.m && 0 <= sbuddy(q) < self.n(k) implies !self.a(k, sbuddy(q)) by {
            assert(q == self.n(k) - 1 && self.n(k) % 2 == 1);
            assert(sbuddy(q) == self.n(k));
        }
    }
}

impl BS {
    pub open spec fn gclause(&self, k: int, q: int) -> bool {
        0 <= k <= self.m && 0 <= q < self.n(k) && (k == self.m || (q == self.n(k) - 1 && self.n(k) % 2 == 1))
    }
    // orders >= lb are in their final greedy state, orders below lb hold nothing free
    pub open spec fn pgreedy(&self, lb: int) -> bool {
        forall|k: int, q: int| #[trigger] self.a(k, q) <==> (lb <= k && self.gclause(k, q))
    }
    // as pgreedy(o + 1), and at order o exactly the blocks lo .. c are free
    pub open spec fn pgreedy_cur(&self, o: int, lo: int, c: int) -> bool {
        forall|k: int, q: int| #[trigger] self.a(k, q) <==> ((o < k && self.gclause(k, q)) || (k == o && lo <= q < c && 0 <= q < self.n(o)))
    }
    pub open spec fn lo_of(&self, o: int) -> int { if o >= self.m { 0 } else { 2 * self.n(o + 1) } }

    pub proof fn lemma_pg_enter(&self, o: int)
        requires self.pgreedy(o + 1), 0 <= o <= self.m,
        ensures self.pgreedy_cur(o, self.lo_of(o), self.lo_of(o)),
    {
        assert forall|k: int, q: int| #[trigger] self.a(k, q) <==> ((o < k && self.gclause(k, q)) || (k == o && self.lo_of(o) <= q < self.lo_of(o) && 0 <= q < self.n(o))) by {
            assert(self.a(k, q) <==> (o + 1 <= k && self.gclause(k, q)));
        }
    }
    pub proof fn lemma_pg_step(s: BS, f: BS, o: int, lo: int, c: int)
        requires
            s.pgreedy_cur(o, lo, c), f.m == s.m, 0 <= o <= s.m, 0 <= lo <= c < s.n(o),
            forall|k: int| 0 <= k <= s.m && k != o ==> #[trigger] f.fs[k] == s.fs[k],
            f.fs[o].leaf().len == s.fs[o].leaf().len, !f.fs[o].leaf().bit_at(c),
            forall|j: int| 0 <= j < s.n(o) && j != c ==> #[trigger] f.fs[o].leaf().bit_at(j) == s.fs[o].leaf().bit_at(j),
        ensures f.pgreedy_cur(o, lo, c + 1),
    {
        assert forall|k: int| 0 <= k <= s.m implies #[trigger] f.n(k) == s.n(k) by {}
        assert forall|k: int, q: int| #[trigger] f.a(k, q) <==> ((o < k && f.gclause(k, q)) || (k == o && lo <= q < c + 1 && 0 <= q < f.n(o))) by {
            assert(s.a(k, q) <==> ((o < k && s.gclause(k, q)) || (k == o && lo <= q < c && 0 <= q < s.n(o))));
            if k == o {
                if q != c && 0 <= q < s.n(o) { assert(f.fs[o].leaf().bit_at(q) == s.fs[o].leaf().bit_at(q)); }
            } else if 0 <= k <= s.m {
                assert(f.fs[k] == s.fs[k]);
            }
        }
    }
    pub proof fn lemma_pg_exit(&self, o: int)
        requires self.pgreedy_cur(o, self.lo_of(o), self.n(o)), self.halving(), 0 <= o <= self.m,
            forall|j: int| 0 <= j <= self.m ==> #[trigger] self.n(j) >= 0,
        ensures self.pgreedy(o),
    {
        if o < self.m { assert(self.n(o + 1) == self.n(o) / 2); }
        assert forall|k: int, q: int| #[trigger] self.a(k, q) <==> (o <= k && self.gclause(k, q)) by {
            assert(self.a(k, q) <==> ((o < k && self.gclause(k, q)) || (k == o && self.lo_of(o) <= q < self.n(o) && 0 <= q < self.n(o))));
        }
    }
    pub proof fn lemma_pg_done(&self)
        requires self.pgreedy(0), 
        ensures self.greedy(),
    {
        assert forall|k: int, q: int| #[trigger] self.a(k, q) <==>
            (0 <= k <= self.m && 0 <= q < self.n(k) && (k == self.m || (q == self.n(k) - 1 && self.n(k) % 2 == 1))) by {
            assert(self.a(k, q) <==> (0 <= k && self.gclause(k, q)));
        }
    }
    // nothing is free when every bitmap is all ones
    pub proof fn lemma_all_full_pg(&self)
        requires forall|k: int, q: int| 0 <= k <= self.m && 0 <= q < self.n(k) ==> #[trigger] self.fs[k].leaf().bit_at(q),
        ensures self.pgreedy(self.m + 1),
    {
        assert forall|k: int, q: int| #[trigger] self.a(k, q) <==> (self.m + 1 <= k && self.gclause(k, q)) by {}
    }
}
pub proof fn lemma_mul_div_exact(c: int, sz: int)
    requires sz > 0, c >= 0,
    ensures (c * sz) / sz == c,
{
    vstd::arithmetic::div_mod::lemma_div_multiples_vanish(c, sz);
}
pub proof fn lemma_fits(c: int, sz: int, n: int)
    requires sz > 0, c >= 0, n >= 0,
    ensures (c * sz + sz <= n) <==> (c + 1 <= n / sz),
{
    lemma_div_block(n, n / sz, sz);
    assert(c * sz + sz == (c + 1) * sz) by (nonlinear_arith);
    if c + 1 <= n / sz {
        assert((c + 1) * sz <= (n / sz) * sz) by (nonlinear_arith) requires c + 1 <= n / sz, sz > 0;
    } else {
        assert((c + 1) * sz >= (n / sz + 1) * sz) by (nonlinear_arith) requires c + 1 >= n / sz + 1, sz > 0;
    }
}

#[verifier::external_body]
pub fn vec_reverse<T>(v: &mut Vec<T>) ensures final(v)@ == old(v)@.reverse() { v.reverse() }
pub open spec fn cap_bound(k: int) -> int {
    if k <= 0 { 0x4000_0000 } else if k == 1 { 0x100_0000 } else if k == 2 { 0x4_0000 } else if k == 3 { 0x1000 } else { 64 }
}
impl BtreeBitmap {
    pub open spec fn all_full(&self) -> bool {
        forall|k: int, w: int| 0 <= k < self.h() && 0 <= w < self.heights@[k].data@.len() ==> #[trigger] self.heights@[k].data@[w] == u64::MAX
    }
}
impl BtreeBitmap {
    // Initializes a new allocator, with no ids free
    pub fn new(mut num_pages: u32, mut capacity: u32) -> (r: Self)
        requires num_pages <= capacity, capacity <= 0x4000_0000,
        ensures r.wf(), r.all_full(), r.leaf().len == num_pages, r.h() <= 5,
            r.leaf().data@.len() == (capacity as int + 63) / 64,
    {
        let mut heights: Vec<U64GroupedBitmap> = vec![];      // R13: type ascription added
        let ghost n0 = num_pages;
        let ghost c0 = capacity;

        // Build from the leaf to root
        loop
            invariant_except_break
                num_pages <= capacity, capacity as int <= cap_bound(heights@.len() as int), heights@.len() <= 4,
                forall|j: int| 0 <= j < heights@.len() ==> (#[trigger] heights@[j]).wf() && heights@[j].len <= 0x4000_0000
                    && (forall|w: int| 0 <= w < heights@[j].data@.len() ==> #[trigger] heights@[j].data@[w] == u64::MAX),
                forall|j: int| 0 <= j < heights@.len() - 1 ==> (#[trigger] heights@[j + 1]).len as int == (heights@[j].len as int + 63) / 64,
                heights@.len() > 0 ==> num_pages as int == (heights@[heights@.len() - 1].len as int + 63) / 64,
                heights@.len() > 0 ==> heights@[0].len == n0 && heights@[0].data@.len() == (c0 as int + 63) / 64,
                heights@.len() == 0 ==> num_pages == n0 && capacity == c0,
            ensures
                1 <= heights@.len() <= 5,
                forall|j: int| 0 <= j < heights@.len() ==> (#[trigger] heights@[j]).wf() && heights@[j].len <= 0x4000_0000
                    && (forall|w: int| 0 <= w < heights@[j].data@.len() ==> #[trigger] heights@[j].data@[w] == u64::MAX),
                forall|j: int| 0 <= j < heights@.len() - 1 ==> (#[trigger] heights@[j + 1]).len as int == (heights@[j].len as int + 63) / 64,
                heights@[heights@.len() - 1].len <= 64,
                heights@[0].len == n0 && heights@[0].data@.len() == (c0 as int + 63) / 64,
            decreases capacity,
        {
            let ghost before = heights@;
            heights.push(U64GroupedBitmap::new_full(num_pages, capacity));
            proof {
                let nl = heights@[heights@.len() - 1];
                lemma_wbit_max(u64::MAX);
                assert forall|w: int| 0 <= w < nl.data@.len() implies #[trigger] nl.data@[w] == u64::MAX by {
                    assert(nl.bit_at(w * 64));   // every bit is set, so is every word
                    assert forall|jj: u64| jj < 64 implies #[trigger] wbit(nl.data@[w], jj) by {
                        assert(nl.bit_at(w * 64 + jj as int));
                        assert((w * 64 + jj as int) / 64 == w && (w * 64 + jj as int) % 64 == jj as int);
                    }
                    lemma_wbit_max(nl.data@[w]);
                }
                assert forall|j: int| 0 <= j < heights@.len() - 1 implies heights@[j] == before[j] by {}
            }
            if capacity <= 64 {
                break;
            }
            capacity = div_ceil_u32(capacity, 64);
            num_pages = div_ceil_u32(num_pages, 64);
        }

        // Reverse so that the root is at index 0
        let ghost hs = heights@;
        vec_reverse(&mut heights);
        proof {
            let n = hs.len() as int;
            assert forall|k: int| 0 <= k < n implies #[trigger] heights@[k] == hs[n - 1 - k] by {}
            assert forall|k: int| 0 <= k < n - 1 implies (#[trigger] heights@[k]).len as int == (heights@[k + 1].len as int + 63) / 64 by {
                assert(heights@[k] == hs[n - 1 - k]);
                assert(heights@[k + 1] == hs[n - 2 - k]);
                assert(hs[(n - 2 - k) + 1].len as int == (hs[n - 2 - k].len as int + 63) / 64);
            }
        }
        let r = Self { heights };
        proof {
            assert forall|p: int| 0 <= p < r.h() - 1 implies #[trigger] r.summary(p) by {
                let par = r.heights@[p];
                let ch = r.heights@[p + 1];
                assert(par.wf() && ch.wf());
                assert forall|e: int| 0 <= e < par.len implies (#[trigger] par.bit_at(e) <==> ch.data@[e] == u64::MAX) by {
                    assert(par.data@[e / 64] == u64::MAX);
                    lemma_wbit_max(par.data@[e / 64]);
                    assert(ch.data@[e] == u64::MAX);
                }
            }
        }
        r
    }

    // Like new(), but pads the tree height for max_capacity so resize()
    // never needs to insert new levels.
    pub fn new_padded(num_pages: u32, capacity: u32, max_capacity: u32) -> (r: Self)
        requires num_pages <= capacity, capacity <= 0x4000_0000, max_capacity <= 0x4000_0000,
        ensures r.wf(), r.all_full(), r.leaf().len == num_pages, r.h() <= 5,
            r.leaf().data@.len() == (capacity as int + 63) / 64,
    {
        let mut result = Self::new(num_pages, capacity);

        let max_height = Self::height_for_capacity(max_capacity);
        while result.heights.len() < max_height
            invariant result.wf(), result.all_full(), result.leaf().len == num_pages, result.h() <= 5, max_height <= 5,
                result.leaf().data@.len() == (capacity as int + 63) / 64,
            decreases max_height - result.heights@.len(),
        {
            let ghost pre = result;
            let root_len = result.heights[0].len();
            let parent_len = div_ceil_u32(root_len, 64);
            result
                .heights
                .insert(0, U64GroupedBitmap::new_full(parent_len, parent_len));
            proof {
                let nr = result.heights@[0];
                assert forall|k: int| 1 <= k < result.h() implies #[trigger] result.heights@[k] == pre.heights@[k - 1] by {}
                assert(pre.heights@[0].wf());
                lemma_wbit_max(u64::MAX);
                assert forall|w: int| 0 <= w < nr.data@.len() implies #[trigger] nr.data@[w] == u64::MAX by {
                    assert forall|jj: u64| jj < 64 implies #[trigger] wbit(nr.data@[w], jj) by {
                        assert(nr.bit_at(w * 64 + jj as int));
                        assert((w * 64 + jj as int) / 64 == w && (w * 64 + jj as int) % 64 == jj as int);
                    }
                    lemma_wbit_max(nr.data@[w]);
                }
                assert forall|p: int| 0 <= p < result.h() - 1 implies #[trigger] result.summary(p) by {
                    if p == 0 {
                        let ch = result.heights@[1];
                        assert forall|e: int| 0 <= e < nr.len implies (#[trigger] nr.bit_at(e) <==> ch.data@[e] == u64::MAX) by {
                            assert(nr.data@[e / 64] == u64::MAX);
                            lemma_wbit_max(nr.data@[e / 64]);
                            assert(ch.data@[e] == u64::MAX);
                        }
                    } else {
                        assert(pre.summary(p - 1));
                        assert(result.heights@[p] == pre.heights@[p - 1]);
                        assert(result.heights@[p + 1] == pre.heights@[p - 1 + 1]);
                    }
                }
            }
        }

        result
    }

    fn height_for_capacity(mut capacity: u32) -> (r: usize)
        requires capacity <= 0x4000_0000,
        ensures 1 <= r <= 5,
    {
        let mut height = 1;
        while capacity > 64
            invariant 1 <= height <= 5, capacity as int <= cap_bound(height as int - 1),
            decreases capacity,
        {
            capacity = div_ceil_u32(capacity, 64);
            height += 1;
        }
        height
    }


}

impl BuddyAllocator {
    pub fn new(num_pages: u32, max_page_capacity: u32) -> (r: Self)
        requires 0 < max_page_capacity <= 0x4000_0000, num_pages <= 0x4000_0000,
        ensures r.len == num_pages, r.shape(), r.st().greedy(), r.wf2(),
    {
        let max_order = calculate_usable_order(max_page_capacity);

        let mut capacity_for_order = max_page_capacity;
        let mut pages_for_order = num_pages;
        let mut free: Vec<BtreeBitmap> = vec![];
        proof { assert(pow2(0) == 1); }
        for _ in iter: 0..=max_order
            invariant
                max_order <= 20, free@.len() == iter.index@, iter.index@ <= max_order as int + 1,
                pages_for_order as int == num_pages as int / pow2(iter.index@ as nat),
                capacity_for_order <= 0x4000_0000, num_pages <= 0x4000_0000,
                forall|k: int| 0 <= k < free@.len() ==> (#[trigger] free@[k]).wf() && free@[k].all_full()
                    && free@[k].leaf().len as int == num_pages as int / pow2(k as nat),
        {
            let ghost before = free@;
            proof { lemma_half(num_pages as int, iter.index@ as nat); }
            // Lazily size each bitmap for the actual current pages, but pad the tree
            // height so resize() can grow to the full region capacity without needing
            // to insert new tree levels.
            free.push(BtreeBitmap::new_padded(
                pages_for_order,
                pages_for_order,
                capacity_for_order,
            ));

            proof {
                assert forall|k: int| 0 <= k < free@.len() - 1 implies #[trigger] free@[k] == before[k] by {}
            }
            pages_for_order = next_higher_order(pages_for_order);
            capacity_for_order = next_higher_order(capacity_for_order);
        }

        // Mark the available pages, starting with the highest order
        let mut accounted_pages = 0;
        let ghost m = max_order as int;
        let ghost nn = num_pages as int;
        proof {
            let st0 = BS { fs: free@, m: m };
            assert forall|k: int, q: int| 0 <= k <= st0.m && 0 <= q < st0.n(k) implies #[trigger] st0.fs[k].leaf().bit_at(q) by {
                let b = free@[k];
                assert(b.wf() && b.all_full());
                let lf = b.heights@[b.h() - 1];
                assert(lf.wf());
                assert(lf.data@[q / 64] == u64::MAX);
                lemma_wbit_max(lf.data@[q / 64]);
            }
            st0.lemma_all_full_pg();
        }
        for order in iter: (0..=max_order).rev()
            invariant
                m == max_order as int, nn == num_pages as int, max_order <= 20, num_pages <= 0x4000_0000,
                iter.index@ <= m + 1, free@.len() == m + 1,
                forall|k: int| 0 <= k <= m ==> (#[trigger] free@[k]).wf() && free@[k].leaf().len as int == nn / pow2(k as nat),
                (BS { fs: free@, m: m }).pgreedy(m + 1 - iter.index@),
                accounted_pages as int == (if iter.index@ == 0 { 0 } else { (nn / pow2((m + 1 - iter.index@) as nat)) * pow2((m + 1 - iter.index@) as nat) }),
        {
            let ghost o = order as int;
            let ghost sz = pow2(order as nat);
            let ghost lo = (BS { fs: free@, m: m }).lo_of(o);
            let ghost c = lo;
            proof {
                assert(o == m - iter.index@);
                lemma_pow2_pos(order as nat);
                let st = BS { fs: free@, m: m };
                st.lemma_pg_enter(o);
                assert(st.n(o) == nn / sz);
                if o < m {
                    lemma_half(nn, order as nat);
                    assert(st.n(o + 1) == nn / pow2((o + 1) as nat));
                    assert(pow2((o + 1) as nat) == 2 * sz);
                    assert(accounted_pages as int == lo * sz) by (nonlinear_arith)
                        requires accounted_pages as int == (nn / (2 * sz)) * (2 * sz), lo == 2 * (nn / (2 * sz));
                } else {
                    assert(accounted_pages == 0);
                    assert(lo * sz == 0) by (nonlinear_arith) requires lo == 0;
                }
                lemma_div_block(nn, nn / sz, sz);
                assert(lo <= st.n(o)) by {
                    if o < m { assert(st.n(o + 1) == st.n(o) / 2); }
                }
                assert(lo * sz <= nn) by (nonlinear_arith)
                    requires 0 <= lo <= nn / sz, (nn / sz) * sz <= nn, sz > 0;
            }
            let order_size = pow2_u32(order);
            while accounted_pages + order_size <= num_pages
                invariant
                    m == max_order as int, nn == num_pages as int, num_pages <= 0x4000_0000, o == order as int, 0 <= o <= m, m <= 20,
                    sz == pow2(order as nat), order_size as int == sz, sz > 0, order_size <= 0x10_0000, free@.len() == m + 1,
                    forall|k: int| 0 <= k <= m ==> (#[trigger] free@[k]).wf() && free@[k].leaf().len as int == nn / pow2(k as nat),
                    0 <= lo <= c <= nn / sz, accounted_pages as int == c * sz, accounted_pages <= num_pages,
                    (BS { fs: free@, m: m }).pgreedy_cur(o, lo, c),
                    lo == (BS { fs: free@, m: m }).lo_of(o),
                decreases nn - accounted_pages,
            {
                let ghost pre = BS { fs: free@, m: m };
                let ghost pre_free = free@;
                proof {
                    lemma_fits(c, sz, nn);
                    lemma_mul_div_exact(c, sz);
                    assert(pre.n(o) == nn / sz);
                }
                let page = accounted_pages / order_size;
                free[order as usize].clear(page);
                accounted_pages += order_size;
                proof {
                    let post = BS { fs: free@, m: m };
                    assert forall|k: int| 0 <= k <= m && k != o implies #[trigger] free@[k] == pre_free[k] by {}
                    BS::lemma_pg_step(pre, post, o, lo, c);
                    assert(post.lo_of(o) == pre.lo_of(o)) by { if o < m { assert(post.fs[o + 1] == pre.fs[o + 1]); } }
                    assert((c + 1) * sz == c * sz + sz) by (nonlinear_arith);
                    c = c + 1;
                }
            }
            proof {
                let st = BS { fs: free@, m: m };
                lemma_fits(c, sz, nn);
                assert(c == nn / sz);
                assert(st.n(o) == nn / sz);
                assert(st.halving()) by {
                    assert forall|k: int| 0 <= k < st.m implies #[trigger] st.n(k + 1) == st.n(k) / 2 by { lemma_half(nn, k as nat); }
                }
                st.lemma_pg_exit(o);
            }
        }
        proof {
            let st = BS { fs: free@, m: m };
            assert(pow2(0) == 1);
            st.lemma_pg_done();
            assert(st.halving()) by {
                assert forall|k: int| 0 <= k < st.m implies #[trigger] st.n(k + 1) == st.n(k) / 2 by { lemma_half(nn, k as nat); }
            }
            st.lemma_greedy_wf();
        }
        assert!((accounted_pages) == (num_pages));

        Self {
            free,
            len: num_pages,
            max_order,
        }
    }


}

use core::ops::Range;
pub const INITIAL_REGIONS: u32 = 1000;
pub const MAX_REGIONS: u32 = 0x0010_0000;
pub fn max_u32(a: u32, b: u32) -> (r: u32) ensures r == (if a >= b { a } else { b }) { if a >= b { a } else { b } }
impl RegionLayout {
    pub open spec fn ok(&self) -> bool {
        512 <= self.page_size <= 0x10_0000 && self.num_pages <= 0x10_0000 && self.header_pages <= 0x10_0000
    }
    pub open spec fn spec_len(&self) -> int {
        self.header_pages as int * self.page_size as int + self.page_size as int * self.num_pages as int
    }
}

impl DatabaseLayout {
    pub open spec fn spec_num_regions(&self) -> int {
        self.num_full_regions as int + (if self.trailing_partial_region.is_some() { 1int } else { 0int })
    }
    pub open spec fn ok(&self) -> bool {
        self.full_region_layout.ok() && self.full_region_layout.num_pages > 0
        && 1 <= self.spec_num_regions() <= 0x10_0000
        && (self.trailing_partial_region matches Some(t) ==> t.ok() && t.num_pages > 0
              && t.num_pages <= self.full_region_layout.num_pages
              && t.header_pages == self.full_region_layout.header_pages
              && t.page_size == self.full_region_layout.page_size)
    }
    pub open spec fn spec_base(&self, region: int) -> int {
        self.full_region_layout.page_size as int + region * self.full_region_layout.spec_len()
    }
    pub open spec fn spec_region(&self, region: int) -> RegionLayout {
        if region == self.num_full_regions { self.trailing_partial_region.unwrap() } else { self.full_region_layout }
    }
    pub open spec fn spec_len(&self) -> int {
        self.spec_base(self.spec_num_regions() - 1) + self.spec_region(self.spec_num_regions() - 1).spec_len()
    }

    // C20-A1: every in-range page of every region ends inside the layout
    pub proof fn lemma_page_in_bounds(&self, region: int, index: int, order: nat)
        requires
            self.ok(), 0 <= region < self.spec_num_regions(), 0 <= index, order <= 20,
            (index + 1) * pow2(order) <= self.spec_region(region).num_pages,
        ensures
            self.spec_base(region)
              + self.full_region_layout.header_pages as int * self.full_region_layout.page_size as int
              + index * (pow2(order) * self.full_region_layout.page_size as int)
              + pow2(order) * self.full_region_layout.page_size as int
              <= self.spec_len(),
            self.spec_len() <= 0x4000_0000_0000_0000,
    {
        let ps = self.full_region_layout.page_size as int;
        let hp = self.full_region_layout.header_pages as int;
        let n = self.spec_region(region).num_pages as int;
        let last = self.spec_num_regions() - 1;
        let flen = self.full_region_layout.spec_len();
        assert(self.spec_region(region).header_pages == hp && self.spec_region(region).page_size == ps);
        // page end <= end of its own region
        assert(index * (pow2(order) * ps) + pow2(order) * ps == ((index + 1) * pow2(order)) * ps) by (nonlinear_arith);
        assert(((index + 1) * pow2(order)) * ps <= n * ps) by (nonlinear_arith)
            requires (index + 1) * pow2(order) <= n, ps >= 0;
        // end of region `region` <= end of last region
        assert(self.spec_region(region).spec_len() == hp * ps + ps * n);
        assert(self.spec_region(region).spec_len() <= flen) by (nonlinear_arith)
            requires self.spec_region(region).spec_len() == hp * ps + ps * n, flen == hp * ps + ps * self.full_region_layout.num_pages as int,
                     n <= self.full_region_layout.num_pages as int, ps >= 0;
        if region < last {
            assert(region * flen + flen <= last * flen) by (nonlinear_arith)
                requires region + 1 <= last, flen >= 0;
        }
        assert(flen <= 0x20_0000 * 0x10_0000) by (nonlinear_arith)
            requires flen == hp * ps + ps * self.full_region_layout.num_pages as int, 0 <= hp <= 0x10_0000, 0 <= ps <= 0x10_0000, 0 <= self.full_region_layout.num_pages as int <= 0x10_0000;
        let nl = self.spec_region(last).num_pages as int;
        assert(self.spec_region(last).header_pages == hp && self.spec_region(last).page_size == ps);
        assert(hp * ps + ps * nl <= flen) by (nonlinear_arith)
            requires flen == hp * ps + ps * self.full_region_layout.num_pages as int,
                     nl <= self.full_region_layout.num_pages as int, ps >= 0;
        assert(last * flen <= 0x10_0000 * (0x20_0000 * 0x10_0000)) by (nonlinear_arith)
            requires 0 <= last <= 0x10_0000, 0 <= flen <= 0x20_0000 * 0x10_0000;
    }
}

fn round_up_to_multiple_of(value: u64, multiple: u64) -> (r: u64)
    requires multiple > 0, value as int + multiple as int <= u64::MAX,
    ensures r >= value, r as int % (multiple as int) == 0, (r as int) < value as int + multiple as int,
    {
    if value.is_multiple_of(multiple) {
        value
    } else {
        value + multiple - value % multiple
    }
}

// Regions are laid out starting with the allocator state header, followed by the pages aligned
// to the next page
#[derive(Clone, Copy, Debug, Eq, PartialEq)]
pub struct RegionLayout {
    pub num_pages: u32,
    pub header_pages: u32,
    pub page_size: u32,
}

impl RegionLayout {
    pub fn new(num_pages: u32, header_pages: u32, page_size: u32) -> (r: Self)
        requires num_pages > 0,
        ensures r.num_pages == num_pages, r.header_pages == header_pages, r.page_size == page_size,
    {
        assert!(num_pages > 0);
        Self {
            num_pages,
            header_pages,
            page_size,
        }
    }

    pub fn calculate(
        desired_usable_bytes: u64,
        page_capacity: u32,
        region_header_pages: u32,
        page_size: u32,
    ) -> RegionLayout {
        assert!(desired_usable_bytes <= u64::from(page_capacity) * u64::from(page_size));
        let num_pages =
            round_up_to_multiple_of(desired_usable_bytes, page_size.into()) / u64::from(page_size);

        Self {
            num_pages: num_pages.try_into().unwrap(),
            header_pages: region_header_pages,
            page_size,
        }
    }

    pub fn data_section(&self) -> (r: Range<u64>)
        requires self.ok(),
        ensures r.start == self.header_pages as int * self.page_size as int, r.end == self.spec_len(),
    {
        let header_bytes = u64::from(self.header_pages) * u64::from(self.page_size);
        header_bytes..(header_bytes + self.usable_bytes())
    }

    pub fn get_header_pages(&self) -> (r: u32)
        ensures r == self.header_pages,
    {
        self.header_pages
    }

    pub fn num_pages(&self) -> (r: u32)
        ensures r == self.num_pages,
    {
        self.num_pages
    }

    pub fn page_size(&self) -> (r: u32)
        ensures r == self.page_size,
    {
        self.page_size
    }

    pub fn len(&self) -> (r: u64)
        requires self.ok(),
        ensures r == self.spec_len(),
    {
        u64::from(self.header_pages) * u64::from(self.page_size) + self.usable_bytes()
    }

    pub fn usable_bytes(&self) -> (r: u64)
        requires self.ok(),
        ensures r == self.page_size as int * self.num_pages as int,
    {
        u64::from(self.page_size) * u64::from(self.num_pages)
    }
}

#[derive(Clone, Copy, Debug)]
pub struct DatabaseLayout {
    pub full_region_layout: RegionLayout,
    pub num_full_regions: u32,
    pub trailing_partial_region: Option<RegionLayout>,
}

impl DatabaseLayout {
    pub fn new(
        full_regions: u32,
        full_region: RegionLayout,
        trailing_region: Option<RegionLayout>,
    ) -> Self {
        Self {
            full_region_layout: full_region,
            num_full_regions: full_regions,
            trailing_partial_region: trailing_region,
        }
    }

    pub fn reduce_last_region(&mut self, pages: u32) {
        if let Some(ref mut trailing) = self.trailing_partial_region {
            assert!(pages <= trailing.num_pages);
            trailing.num_pages -= pages;
            if trailing.num_pages == 0 {
                self.trailing_partial_region = None;
            }
        } else {
            self.num_full_regions -= 1;
            let full_layout = self.full_region_layout;
            if full_layout.num_pages > pages {
                self.trailing_partial_region = Some(RegionLayout::new(
                    full_layout.num_pages - pages,
                    full_layout.header_pages,
                    full_layout.page_size,
                ));
            }
        }
    }

    pub fn recalculate(
        file_len: u64,
        region_header_pages_u32: u32,
        region_max_data_pages_u32: u32,
        page_size_u32: u32,
    ) -> Self {
        let page_size = u64::from(page_size_u32);
        let region_header_pages = u64::from(region_header_pages_u32);
        let region_max_data_pages = u64::from(region_max_data_pages_u32);
        // Super-header
        let mut remaining = file_len - page_size;
        let full_region_size = (region_header_pages + region_max_data_pages) * page_size;
        let full_regions = remaining / full_region_size;
        remaining -= full_regions * full_region_size;
        let trailing = if remaining >= (region_header_pages + 1) * page_size {
            remaining -= region_header_pages * page_size;
            let remaining: u32 = remaining.try_into().unwrap();
            let data_pages = remaining / page_size_u32;
            assert!(data_pages < region_max_data_pages_u32);
            Some(RegionLayout::new(
                data_pages,
                region_header_pages_u32,
                page_size_u32,
            ))
        } else {
            None
        };
        let full_layout = RegionLayout::new(
            region_max_data_pages_u32,
            region_header_pages_u32,
            page_size_u32,
        );

        Self {
            full_region_layout: full_layout,
            num_full_regions: full_regions.try_into().unwrap(),
            trailing_partial_region: trailing,
        }
    }

    pub fn calculate(
        desired_usable_bytes: u64,
        page_capacity: u32,
        region_header_pages: u32,
        page_size: u32,
    ) -> Self {
        let full_region_layout = RegionLayout::new(page_capacity, region_header_pages, page_size);
        if desired_usable_bytes <= full_region_layout.usable_bytes() {
            // Single region layout
            let region_layout = RegionLayout::calculate(
                desired_usable_bytes,
                page_capacity,
                region_header_pages,
                page_size,
            );
            DatabaseLayout {
                full_region_layout,
                num_full_regions: 0,
                trailing_partial_region: Some(region_layout),
            }
        } else {
            // Multi region layout
            let full_regions = desired_usable_bytes / full_region_layout.usable_bytes();
            let remaining_desired =
                desired_usable_bytes - full_regions * full_region_layout.usable_bytes();
            assert!(full_regions > 0);
            let trailing_region = if remaining_desired > 0 {
                Some(RegionLayout::calculate(
                    remaining_desired,
                    page_capacity,
                    region_header_pages,
                    page_size,
                ))
            } else {
                None
            };
            if let Some(ref region) = trailing_region {
                // All regions must have the same header size
                assert!((region.header_pages) == (full_region_layout.header_pages));
            }
            DatabaseLayout {
                full_region_layout,
                num_full_regions: full_regions.try_into().unwrap(),
                trailing_partial_region: trailing_region,
            }
        }
    }

    pub fn full_region_layout(&self) -> (r: &RegionLayout)
        ensures *r == self.full_region_layout,
    {
        &self.full_region_layout
    }

    pub fn trailing_region_layout(&self) -> Option<&RegionLayout> {
        self.trailing_partial_region.as_ref()
    }

    pub fn num_full_regions(&self) -> (r: u32)
        ensures r == self.num_full_regions,
    {
        self.num_full_regions
    }

    pub fn num_regions(&self) -> (r: u32)
        requires self.ok(),
        ensures r == self.spec_num_regions(),
    {
        if self.trailing_partial_region.is_some() {
            self.num_full_regions + 1
        } else {
            self.num_full_regions
        }
    }

    pub fn len(&self) -> (r: u64)
        requires self.ok(),
        ensures r == self.spec_len(),
    {
        let last = self.num_regions() - 1;
        self.region_base_address(last) + self.region_layout(last).len()
    }

    pub fn usable_bytes(&self) -> u64 {
        let trailing = self
            .trailing_partial_region
            .as_ref()
            .map(RegionLayout::usable_bytes)
            .unwrap_or_default();
        u64::from(self.num_full_regions) * self.full_region_layout.usable_bytes() + trailing
    }

    pub fn region_base_address(&self, region: u32) -> (r: u64)
        requires self.ok(), region < self.spec_num_regions(),
        ensures r == self.spec_base(region as int),
    {
        assert!(region < self.num_regions());
        u64::from(self.full_region_layout.page_size())
            + u64::from(region) * self.full_region_layout.len()
    }

    pub fn region_layout(&self, region: u32) -> (r: RegionLayout)
        requires self.ok(), region < self.spec_num_regions(),
        ensures r == self.spec_region(region as int),
    {
        assert!(region < self.num_regions());
        if region == self.num_full_regions {
            self.trailing_partial_region.unwrap()
        } else {
            self.full_region_layout
        }
    }
}



impl RegionTracker {
    pub fn new(regions: u32, orders: u8) -> (r: Self)
        requires regions <= 0x10_0000, 1 <= orders <= 32,
        ensures r.wf(), r.regions() == regions, r.order_trackers@.len() == orders,
            forall|o: int, x: int| 0 <= o < orders && 0 <= x < regions ==> !#[trigger] r.may_be_free(o, x),
    {
        let mut data: Vec<BtreeBitmap> = vec![];
        for _ in iter: 0..orders
            invariant data@.len() == iter.index@, iter.index@ <= orders, regions <= 0x10_0000,
                forall|k: int| 0 <= k < data@.len() ==> (#[trigger] data@[k]).wf() && data@[k].all_full() && data@[k].leaf().len == regions,
        {
            let ghost before = data@;
            data.push(BtreeBitmap::new_padded(regions, regions, MAX_REGIONS));
            proof { assert forall|k: int| 0 <= k < data@.len() - 1 implies #[trigger] data@[k] == before[k] by {} }
        }
        proof {
            assert forall|o: int, x: int| 0 <= o < orders && 0 <= x < regions implies data@[o].leaf().bit_at(x) by {
                let b = data@[o];
                assert(b.wf() && b.all_full());
                let lf = b.heights@[b.h() - 1];
                assert(lf.wf());
                assert(lf.data@[x / 64] == u64::MAX);
                lemma_wbit_max(lf.data@[x / 64]);
            }
        }
        Self {
            order_trackers: data,
        }
    }
}

impl Allocators {
    pub fn new(layout: DatabaseLayout) -> (r: Self)
        requires layout.ok(), layout.full_region_layout.num_pages <= 0x10_0000,
        ensures r.wf(), r.trk(), r.nreg() == layout.spec_num_regions(),
    {
        let mut region_allocators: Vec<BuddyAllocator> = vec![];
        let initial_regions = max_u32(INITIAL_REGIONS, layout.num_regions());
        let mut region_tracker = RegionTracker::new(initial_regions, MAX_MAX_PAGE_ORDER + 1);
        for i in iter: 0..layout.num_regions()
            invariant
                layout.ok(), layout.full_region_layout.num_pages <= 0x10_0000,
                region_allocators@.len() == i, i <= layout.spec_num_regions(),
                region_tracker.wf(), region_tracker.order_trackers@.len() == 21,
                region_tracker.regions() == initial_regions, initial_regions >= layout.spec_num_regions(), initial_regions <= 0x10_0000,
                forall|r: int| 0 <= r < region_allocators@.len() ==> (#[trigger] region_allocators@[r]).wf2() && region_allocators@[r].len <= 0x10_0000
                    && forall|o: int| 0 <= o <= region_allocators@[r].max_order ==> region_tracker.may_be_free(o, r),
                forall|o: int, r: int| 0 <= o < 21 && 0 <= r < initial_regions && #[trigger] region_tracker.may_be_free(o, r) ==> r < i,
        {
            let ghost before = region_allocators@;
            let ghost tr0 = region_tracker;
            let region_layout = layout.region_layout(i);
            let allocator = BuddyAllocator::new(
                region_layout.num_pages(),
                layout.full_region_layout().num_pages(),
            );
            let max_order = allocator.get_max_order();
            region_tracker.mark_free(max_order, i);
            region_allocators.push(allocator);
            proof {
                assert forall|r: int| 0 <= r < region_allocators@.len() - 1 implies #[trigger] region_allocators@[r] == before[r] by {}
                assert forall|r: int| 0 <= r < region_allocators@.len() implies (#[trigger] region_allocators@[r]).wf2() && region_allocators@[r].len <= 0x10_0000
                    && forall|o: int| 0 <= o <= region_allocators@[r].max_order ==> region_tracker.may_be_free(o, r) by {
                    if r < i {
                        assert(region_allocators@[r] == before[r]);
                        assert forall|o: int| 0 <= o <= region_allocators@[r].max_order implies region_tracker.may_be_free(o, r) by {
                            assert(tr0.may_be_free(o, r));
                        }
                    }
                }
            }
        }
        let r = Self {
            region_tracker,
            region_allocators,
        };
        proof {
            assert forall|x: int, o: int| 0 <= x < r.nreg() && 0 <= o < 21 && #[trigger] r.has_free_ge(x, o) implies r.region_tracker.may_be_free(o, x) by {
                let (k, q) = choose|k: int, q: int| o <= k && #[trigger] r.region_allocators@[x].st().a(k, q);
                assert(k <= r.region_allocators@[x].max_order);
            }
        }
        return r;

        Self {
            region_tracker,
            region_allocators,
        }
    }
}

fn main() {}
}

exec(open('patch_l3.py').read().replace("open('bd3.rs','w').write(s)","pass"))
s=s.replace("\nfn main() {}", "\n"+open('l2rec.rs').read()+open('l2view.rs').read()+"\nfn main() {}")
rep("""    pub fn record_alloc_inner(&mut self, page_number: u32, order: u8) -> (r: bool)
        requires old(self).shape(),
        ensures final(self).shape(), final(self).same_shape(*old(self)),""","""    pub fn record_alloc_inner(&mut self, page_number: u32, order: u8) -> (r: bool)
        requires old(self).wf2(),
        ensures final(self).wf2(), final(self).same_shape(*old(self)),
            r ==> old(self).st().cov(order as int, page_number as int) && !final(self).st().cov(order as int, page_number as int),
            r ==> forall|k: int, y: int| 0 <= k <= order ==> #[trigger] final(self).st().cov(k, y)
                    == (old(self).st().cov(k, y) && !is_anc(k, y, order as int, page_number as int)),
            !r ==> !old(self).st().cov(order as int, page_number as int),""")
rep("""        if order > self.max_order {
            return false;
        }
        let allocator = self.get_order_free_mut(order);
        if page_number >= allocator.len() {
            proof { assert(self.free@ =~= old(self).free@); }
            return false;
        }""","""        if order > self.max_order {
            return false;
        }
        proof { self.lemma_st_halving(); }
        let allocator = self.get_order_free_mut(order);
        if page_number >= allocator.len() {
            proof {
                assert(self.free@ =~= old(self).free@);
                old(self).st().lemma_out_of_range_not_cov(order as int, page_number as int);
            }
            return false;
        }""")
rep("""            proof { assert(self.free@ =~= old(self).free@); }
            if !self.record_alloc_inner(upper_page, order + 1) {
                return false;
            }""","""            proof { assert(self.free@ =~= old(self).free@); assert(self.st() == old(self).st()); }
            let ghost mid = *self;
            if !self.record_alloc_inner(upper_page, order + 1) {
                return false;
            }
            let ghost s1 = *self;""")
rep("""            if free1 == page_number {
                allocator.clear(free2);
            } else {
                allocator.clear(free1);
            }
        } else {
            allocator.set(page_number);
        }
""","""            if free1 == page_number {
                allocator.clear(free2);
            } else {
                allocator.clear(free1);
            }
            proof { BS::lemma_record_case_split(mid.st(), s1.st(), self.st(), order as int, upper_page as int, page_number as int); }
        } else {
            allocator.set(page_number);
            proof { BS::lemma_alloc_case_a(old(self).st(), self.st(), order as int, page_number as int); }
        }
""")
rep("""    pub fn record_alloc(&mut self, page_number: u32, order: u8) -> (r: bool)
        requires old(self).shape(),
        ensures final(self).shape(), final(self).same_shape(*old(self)),""","""    pub fn record_alloc(&mut self, page_number: u32, order: u8) -> (r: bool)
        requires old(self).wf2(),
        ensures final(self).wf2(), final(self).same_shape(*old(self)),
            r ==> old(self).st().cov(order as int, page_number as int) && !final(self).st().cov(order as int, page_number as int),
            !r ==> !old(self).st().cov(order as int, page_number as int),""")
# helper lemma on BuddyAllocator: shape gives halving and non-negative lengths for the ghost state
rep("""impl BuddyAllocator {
    pub open spec fn st(&self) -> BS""","""impl BuddyAllocator {
    pub proof fn lemma_st_halving(&self)
        requires self.shape(),
        ensures self.st().halving(), forall|j: int| 0 <= j <= self.st().m ==> #[trigger] self.st().n(j) >= 0,
    {
        assert forall|k: int| 0 <= k < self.st().m implies #[trigger] self.st().n(k + 1) == self.st().n(k) / 2 by {
            self.lemma_len_half(k);
        }
    }
    pub open spec fn st(&self) -> BS""")
open('bd4.rs','w').write(s)

exec(open('patch_l2.py').read().replace("open('bd2.rs','w').write(s)","pass"))
s=s.replace("\nfn main() {}", "\n"+open('l2free.rs').read()+"\nfn main() {}")
rep("""    pub fn free_inner(&mut self, page_number: u32, order: u8) -> (r: u8)
        requires old(self).shape(), order <= old(self).max_order, (page_number as int) < old(self).ord(order as int).len,
        ensures final(self).shape(), final(self).same_shape(*old(self)), order <= r <= old(self).max_order,""","""    pub fn free_inner(&mut self, page_number: u32, order: u8) -> (r: u8)
        requires old(self).wf2(), order <= old(self).max_order, (page_number as int) < old(self).ord(order as int).len,
            old(self).ord(order as int).bit_at(page_number as int),
            !old(self).st().cov(order as int, page_number as int),
            old(self).st().no_free_below(order as int, page_number as int),
        ensures final(self).wf2(), final(self).same_shape(*old(self)), order <= r <= old(self).max_order,
            final(self).st().cov(order as int, page_number as int),
            forall|k: int, x: int| 0 <= k <= order ==> #[trigger] final(self).st().cov(k, x)
                == (old(self).st().cov(k, x) || is_anc(k, x, order as int, page_number as int)),
            forall|j: int, y: int| #[trigger] final(self).st().a(j, y) ==> old(self).st().a(j, y) || j == r as int,""")
rep("""            allocator.clear(page_number);
            return order;""","""            allocator.clear(page_number);
            proof { BS::lemma_free_case_clear(old(self).st(), self.st(), order as int, page_number as int); }
            return order;""")
rep("""            allocator.clear(page_number);
            order
        } else {""","""            allocator.clear(page_number);
            proof { BS::lemma_free_case_clear(old(self).st(), self.st(), order as int, page_number as int); }
            order
        } else {""")
rep("""            allocator.set(buddy);
            proof { self.lemma_len_half(order as int); }
            self.free_inner(next_higher_order(page_number), order + 1)""","""            allocator.set(buddy);
            let ghost s1 = *self;
            proof {
                self.lemma_len_half(order as int);
                BS::lemma_free_case_merge_pre(old(self).st(), s1.st(), order as int, page_number as int);
                // the parent is not marked free (it is not even covered)
                assert(!s1.st().a(order as int + 1, page_number as int / 2));
            }
            let r = self.free_inner(next_higher_order(page_number), order + 1);      // R12: tail call bound to a name
            proof { BS::lemma_free_case_merge_post(old(self).st(), s1.st(), self.st(), order as int, page_number as int, r as int); }
            r""")
# wrappers
rep("""    pub fn alloc(&mut self, order: u8) -> (r: Option<u32>)
        requires old(self).shape(),
        ensures final(self).shape(), final(self).same_shape(*old(self)),""","""    pub fn alloc(&mut self, order: u8) -> (r: Option<u32>)
        requires old(self).wf2(),
        ensures final(self).wf2(), final(self).same_shape(*old(self)),
            r matches Some(p) ==> (p as int) < old(self).ord(order as int).len && old(self).st().cov(order as int, p as int) && !final(self).st().cov(order as int, p as int),
            r matches Some(p) ==> forall|k: int, y: int| 0 <= k <= order ==> #[trigger] final(self).st().cov(k, y)
                    == (old(self).st().cov(k, y) && !is_anc(k, y, order as int, p as int)),
            r matches Some(p) ==> forall|j: int, y: int| #[trigger] final(self).st().a(j, y) ==> old(self).st().cov(j, y),
            r is None ==> final(self).free@ == old(self).free@,
            r is None ==> forall|k: int, q: int| order <= k ==> !#[trigger] old(self).st().a(k, q),""")
rep("""    pub fn free(&mut self, page_number: u32, order: u8) -> (r: u8)
        requires old(self).shape(), order <= old(self).max_order, (page_number as int) < old(self).ord(order as int).len,
            old(self).ord(order as int).bit_at(page_number as int),
        ensures final(self).shape(), final(self).same_shape(*old(self)), order <= r <= old(self).max_order,""","""    pub fn free(&mut self, page_number: u32, order: u8) -> (r: u8)
        requires old(self).wf2(), order <= old(self).max_order, (page_number as int) < old(self).ord(order as int).len,
            old(self).ord(order as int).bit_at(page_number as int),
            !old(self).st().cov(order as int, page_number as int),
            old(self).st().no_free_below(order as int, page_number as int),
        ensures final(self).wf2(), final(self).same_shape(*old(self)), order <= r <= old(self).max_order,
            forall|k: int, x: int| 0 <= k <= order ==> #[trigger] final(self).st().cov(k, x)
                == (old(self).st().cov(k, x) || is_anc(k, x, order as int, page_number as int)),""")
rep("        debug_assert!(self.get_order_free_mut(order).get(page_number));\n", """        debug_assert!(self.get_order_free_mut(order).get(page_number));
        proof { assert(self.free@ =~= old(self).free@); assert(self.st() == old(self).st()); }
""")
open('bd3.rs','w').write(s)

bt=open('bt.rs').read()
bm=open('bm.rs').read()
i=bm.index("    // Initializes a new allocator, with no ids free")
j=bm.index("    pub fn resize(&mut self, mut new_len: u32, full: bool) {")
ctor=bm[i:j]
# put constructors into a second impl block
add='''
pub open spec fn cap_bound(k: int) -> int {
    if k <= 0 { 0x4000_0000 } else if k == 1 { 0x100_0000 } else if k == 2 { 0x4_0000 } else if k == 3 { 0x1000 } else { 64 }
}
impl BtreeBitmap {
    pub open spec fn all_full(&self) -> bool {
        forall|k: int, w: int| 0 <= k < self.h() && 0 <= w < self.heights@[k].data@.len() ==> #[trigger] self.heights@[k].data@[w] == u64::MAX
    }
}
impl BtreeBitmap {
'''+ctor+'''
}
'''
bt=bt.replace("\nfn main() {}", add+"\nfn main() {}")
bt=bt.replace("#[verifier::external_body]\npub fn div_ceil_u32","#[verifier::external_body]\npub fn vec_reverse<T>(v: &mut Vec<T>) ensures final(v)@ == old(v)@.reverse() { v.reverse() }\n#[verifier::external_body]\npub fn div_ceil_u32")
def rep(a,b):
    global bt
    assert bt.count(a)==1,(bt.count(a),a[:70])
    bt=bt.replace(a,b)
rep("    pub fn new(mut num_pages: u32, mut capacity: u32) -> Self {\n        let mut heights = vec![];\n","""    pub fn new(mut num_pages: u32, mut capacity: u32) -> (r: Self)
        requires num_pages <= capacity, capacity <= 0x4000_0000,
        ensures r.wf(), r.all_full(), r.leaf().len == num_pages, r.h() <= 5,
            r.leaf().data@.len() == (capacity as int + 63) / 64,
    {
        let mut heights: Vec<U64GroupedBitmap> = vec![];      // R13: type ascription added
        let ghost n0 = num_pages;
        let ghost c0 = capacity;
""")
rep("""        loop {
            heights.push(U64GroupedBitmap::new_full(num_pages, capacity));
            if capacity <= 64 {
                break;
            }""","""        loop
            invariant_except_break
                num_pages <= capacity, capacity as int <= cap_bound(heights@.len() as int), heights@.len() <= 4,
                forall|j: int| 0 <= j < heights@.len() ==> (#[trigger] heights@[j]).wf() && heights@[j].len <= 0x4000_0000
                    && (forall|w: int| 0 <= w < heights@[j].data@.len() ==> #[trigger] heights@[j].data@[w] == u64::MAX),
                forall|j: int| 0 <= j < heights@.len() - 1 ==> (#[trigger] heights@[j + 1]).len as int == (heights@[j].len as int + 63) / 64,
                heights@.len() > 0 ==> num_pages as int == (heights@[heights@.len() - 1].len as int + 63) / 64,
                heights@.len() > 0 ==> heights@[0].len == n0 && heights@[0].data@.len() == (c0 as int + 63) / 64,
                heights@.len() == 0 ==> num_pages == n0 && capacity == c0,
            ensures
                1 <= heights@.len() <= 5,
                forall|j: int| 0 <= j < heights@.len() ==> (#[trigger] heights@[j]).wf() && heights@[j].len <= 0x4000_0000
                    && (forall|w: int| 0 <= w < heights@[j].data@.len() ==> #[trigger] heights@[j].data@[w] == u64::MAX),
                forall|j: int| 0 <= j < heights@.len() - 1 ==> (#[trigger] heights@[j + 1]).len as int == (heights@[j].len as int + 63) / 64,
                heights@[heights@.len() - 1].len <= 64,
                heights@[0].len == n0 && heights@[0].data@.len() == (c0 as int + 63) / 64,
            decreases capacity,
        {
            let ghost before = heights@;
            heights.push(U64GroupedBitmap::new_full(num_pages, capacity));
            proof {
                let nl = heights@[heights@.len() - 1];
                lemma_wbit_max(u64::MAX);
                assert forall|w: int| 0 <= w < nl.data@.len() implies #[trigger] nl.data@[w] == u64::MAX by {
                    assert(nl.bit_at(w * 64));   // every bit is set, so is every word
                    assert forall|jj: u64| jj < 64 implies #[trigger] wbit(nl.data@[w], jj) by {
                        assert(nl.bit_at(w * 64 + jj as int));
                        assert((w * 64 + jj as int) / 64 == w && (w * 64 + jj as int) % 64 == jj as int);
                    }
                    lemma_wbit_max(nl.data@[w]);
                }
                assert forall|j: int| 0 <= j < heights@.len() - 1 implies heights@[j] == before[j] by {}
            }
            if capacity <= 64 {
                break;
            }""")
rep("""        vec_reverse(&mut heights);

        Self { heights }""","""        let ghost hs = heights@;
        vec_reverse(&mut heights);
        proof {
            let n = hs.len() as int;
            assert forall|k: int| 0 <= k < n implies #[trigger] heights@[k] == hs[n - 1 - k] by {}
            assert forall|k: int| 0 <= k < n - 1 implies (#[trigger] heights@[k]).len as int == (heights@[k + 1].len as int + 63) / 64 by {
                assert(heights@[k] == hs[n - 1 - k]);
                assert(heights@[k + 1] == hs[n - 2 - k]);
                assert(hs[(n - 2 - k) + 1].len as int == (hs[n - 2 - k].len as int + 63) / 64);
            }
        }
        let r = Self { heights };
        proof {
            assert forall|p: int| 0 <= p < r.h() - 1 implies #[trigger] r.summary(p) by {
                let par = r.heights@[p];
                let ch = r.heights@[p + 1];
                assert(par.wf() && ch.wf());
                assert forall|e: int| 0 <= e < par.len implies (#[trigger] par.bit_at(e) <==> ch.data@[e] == u64::MAX) by {
                    assert(par.data@[e / 64] == u64::MAX);
                    lemma_wbit_max(par.data@[e / 64]);
                    assert(ch.data@[e] == u64::MAX);
                }
            }
        }
        r""")
rep("    fn height_for_capacity(mut capacity: u32) -> usize {\n        let mut height = 1;\n        while capacity > 64 {", """    fn height_for_capacity(mut capacity: u32) -> (r: usize)
        requires capacity <= 0x4000_0000,
        ensures 1 <= r <= 5,
    {
        let mut height = 1;
        while capacity > 64
            invariant 1 <= height <= 5, capacity as int <= cap_bound(height as int - 1),
            decreases capacity,
        {""")
rep("    pub fn new_padded(num_pages: u32, capacity: u32, max_capacity: u32) -> Self {", """    pub fn new_padded(num_pages: u32, capacity: u32, max_capacity: u32) -> (r: Self)
        requires num_pages <= capacity, capacity <= 0x4000_0000, max_capacity <= 0x4000_0000,
        ensures r.wf(), r.all_full(), r.leaf().len == num_pages, r.h() <= 5,
            r.leaf().data@.len() == (capacity as int + 63) / 64,
    {""")
rep("        while result.heights.len() < max_height {", """        while result.heights.len() < max_height
            invariant result.wf(), result.all_full(), result.leaf().len == num_pages, result.h() <= 5, max_height <= 5,
                result.leaf().data@.len() == (capacity as int + 63) / 64,
            decreases max_height - result.heights@.len(),
        {
            let ghost pre = result;""")
rep("""                .insert(0, U64GroupedBitmap::new_full(parent_len, parent_len));""", """                .insert(0, U64GroupedBitmap::new_full(parent_len, parent_len));
            proof {
                let nr = result.heights@[0];
                assert forall|k: int| 1 <= k < result.h() implies #[trigger] result.heights@[k] == pre.heights@[k - 1] by {}
                assert(pre.heights@[0].wf());
                lemma_wbit_max(u64::MAX);
                assert forall|w: int| 0 <= w < nr.data@.len() implies #[trigger] nr.data@[w] == u64::MAX by {
                    assert forall|jj: u64| jj < 64 implies #[trigger] wbit(nr.data@[w], jj) by {
                        assert(nr.bit_at(w * 64 + jj as int));
                        assert((w * 64 + jj as int) / 64 == w && (w * 64 + jj as int) % 64 == jj as int);
                    }
                    lemma_wbit_max(nr.data@[w]);
                }
                assert forall|p: int| 0 <= p < result.h() - 1 implies #[trigger] result.summary(p) by {
                    if p == 0 {
                        let ch = result.heights@[1];
                        assert forall|e: int| 0 <= e < nr.len implies (#[trigger] nr.bit_at(e) <==> ch.data@[e] == u64::MAX) by {
                            assert(nr.data@[e / 64] == u64::MAX);
                            lemma_wbit_max(nr.data@[e / 64]);
                            assert(ch.data@[e] == u64::MAX);
                        }
                    } else {
                        assert(pre.summary(p - 1));
                        assert(result.heights@[p] == pre.heights@[p - 1]);
                        assert(result.heights@[p + 1] == pre.heights@[p - 1 + 1]);
                    }
                }
            }""")
open('btn.rs','w').write(bt)

base=open('new.rs').read()
base=base[:base.index("\nfn main() {}")]
ly=open('/var/tmp/exp/v5/ly.rs').read()
i=ly.index("impl RegionLayout {\n    pub open spec fn ok")
lypart=ly[i:ly.index("\nfn main() {}")]
all2=open('/var/tmp/exp/v2/all2.rs').read()
i=all2.index("impl Allocators {\n    pub fn new(layout: DatabaseLayout) -> Self {")
j=all2.index("    #[verifier::external_body]\n\n    pub fn xxh3_hash(&self) -> u128 {\n        // Ignore") if "    #[verifier::external_body]\n\n    pub fn xxh3_hash(&self) -> u128 {\n        // Ignore" in all2 else all2.index("    pub fn xxh3_hash(&self) -> u128 {\n        // Ignore the region tracker")
allocs_new=all2[i:j].rstrip()
if allocs_new.endswith("#[verifier::external_body]"): allocs_new=allocs_new[:-len("#[verifier::external_body]")].rstrip()
allocs_new+="\n}\n"
k=all2.index("    pub fn new(regions: u32, orders: u8) -> Self {")
k2=all2.index("    // Format:\n    // num_orders: u32 number of order allocators")
rt_new="impl RegionTracker {\n"+all2[k:k2].rstrip()+"\n}\n"
src=base+"\nuse core::ops::Range;\npub const INITIAL_REGIONS: u32 = 1000;\npub const MAX_REGIONS: u32 = 0x0010_0000;\npub fn max_u32(a: u32, b: u32) -> (r: u32) ensures r == (if a >= b { a } else { b }) { if a >= b { a } else { b } }\n"+lypart+"\n"+rt_new+"\n"+allocs_new
open('allocs.rs','w').write(src+"\nfn main() {}\n}\n")

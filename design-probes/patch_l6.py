import re
# build from the variant that still contains trailing_free_pages
src=open('patch_l4.py').read().replace("exec(open('patch_l3.py').read()","exec(open('patch_l3.py').read()")
exec(open('patch_l4.py').read().replace("open('bd4.rs','w').write(s)","pass").replace("open('bd.rs').read()","open('bd_t.rs').read()"))
s=s.replace("\nfn main() {}", "\n"+open('l2trail.rs').read()+"""
#[verifier::external_body]
pub fn pow2_u32(e: u8) -> (r: u32) requires e <= 20 ensures r as int == pow2(e as nat), 1 <= r <= 0x10_0000 { 2u32.pow(e.into()) }
"""+"\nfn main() {}")
# find_free_order
rep("""        for order in iter: 0..=self.max_order
            invariant self.shape(),
        {
            if page < self.get_order_free(order).len()""","""        let ghost page0 = page as int;
        proof { assert(pow2(0) == 1); }
        for order in iter: 0..=self.max_order
            invariant self.shape(), 0 <= page0, page as int == page0 / pow2(order as nat),
                forall|j: int| 0 <= j < order ==> !#[trigger] self.st().a(j, page0 / pow2(j as nat)),
        {
            if page < self.get_order_free(order).len()""")
rep("""                return Some(order);
            }
            page = next_higher_order(page);""","""                proof {
                    assert(self.free@[order as int].leaf().len == self.st().n(order as int));
                    assert(self.st().a(order as int, page as int));
                    self.st().lemma_page_in_free_block(page0, order as nat);
                }
                return Some(order);
            }
            proof { lemma_half(page0, order as nat); }
            page = next_higher_order(page);""")
# at the end (None): need !cov(0,page0)
rep("""            page = next_higher_order(page);
        }
        None""","""            page = next_higher_order(page);
        }
        proof {
            self.st().lemma_cov_chain(page0, (self.max_order + 1) as nat);
        }
        None""")
# trailing_free_pages
rep("""        let mut free_pages = 0;
        let mut next_page = self.len() - 1;
        while let Some(order) = self.find_free_order(next_page) {
            let order_size = pow2_u32(order);
            free_pages += order_size;
            if order_size > next_page {
                break;
            }
            next_page -= order_size;
        }
""","""        let mut free_pages = 0;
        let mut next_page = self.len() - 1;
        let ghost has_prev = false;
        let ghost pk: nat = 0;
        let ghost pq: int = 0;
        while let Some(order) = self.find_free_order(next_page)
            invariant_except_break
                self.wf2(), next_page < self.len, free_pages as int == self.len - 1 - next_page,
                forall|p: int| next_page < p < self.len ==> #[trigger] self.st().cov(0, p),
                has_prev ==> pk <= self.max_order && self.st().a(pk as int, pq) && pq * pow2(pk) == next_page + 1,
                !has_prev ==> next_page == self.len - 1,
            ensures
                free_pages <= self.len,
                forall|p: int| self.len - free_pages <= p < self.len ==> #[trigger] self.st().cov(0, p),
            decreases next_page,
        {
            let ghost k = order as nat;
            let ghost np = next_page as int;
            let ghost q = np / pow2(k);
            let ghost sz = pow2(k);
            proof {
                lemma_pow2_pos(k);
                lemma_div_block(np, q, sz);
                // the block lies inside the region
                assert(q < self.st().n(k as int));
                assert(self.st().n(k as int) == self.len as int / sz);
                lemma_div_block(self.len as int, self.len as int / sz, sz);
                assert((q + 1) * sz <= self.len) by (nonlinear_arith)
                    requires q + 1 <= self.len as int / sz, (self.len as int / sz) * sz <= self.len, sz > 0;
                // ... and ends exactly at next_page
                if (q + 1) * sz > np + 1 {
                    if has_prev {
                        let s = np + 1;
                        lemma_in_block_div(s, q, sz);
                        lemma_pow2_pos(pk);
                        assert((pq + 1) * pow2(pk) == pq * pow2(pk) + pow2(pk)) by (nonlinear_arith);
                        lemma_in_block_div(s, pq, pow2(pk));
                        if pk == k {
                            assert(pq == q);
                        } else if pk < k {
                            self.st().lemma_two_orders(s, pk, k);
                        } else {
                            self.st().lemma_two_orders(s, k, pk);
                        }
                    }
                }
                assert((q + 1) * sz == np + 1);
                // all pages of the block are free
                assert forall|p: int| q * sz <= p <= np implies #[trigger] self.st().cov(0, p) by {
                    lemma_in_block_div(p, q, sz);
                    self.st().lemma_page_in_free_block(p, k);
                }
                assert((q + 1) * sz == q * sz + sz) by (nonlinear_arith);
            }
            let order_size = pow2_u32(order);
            free_pages += order_size;
            if order_size > next_page {
                break;
            }
            next_page -= order_size;
            proof { has_prev = true; pk = k; pq = q; }
        }
""")
rep("    fn find_free_order(&self, mut page: u32) -> (r: Option<u8>)", "    #[verifier::loop_isolation(false)]\n    fn find_free_order(&self, mut page: u32) -> (r: Option<u8>)")
open('bd6.rs','w').write(s)

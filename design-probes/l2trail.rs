pub proof fn lemma_anc_pages(p: int, k1: nat, k2: nat)
    requires 0 <= p, k1 <= k2,
    ensures is_anc(k1 as int, p / pow2(k1), k2 as int, p / pow2(k2)),
    decreases k2 - k1,
{
    if k1 < k2 {
        lemma_half(p, k1);
        lemma_anc_pages(p, k1 + 1, k2);
    }
}
pub proof fn lemma_div_block(p: int, q: int, sz: int)
    requires sz > 0, 0 <= p, q == p / sz,
    ensures q * sz <= p < (q + 1) * sz, 0 <= q,
{
    vstd::arithmetic::div_mod::lemma_fundamental_div_mod(p, sz);
    vstd::arithmetic::div_mod::lemma_mod_bound(p, sz);
    assert(p == sz * (p / sz) + p % sz);
    assert(q * sz == sz * q) by (nonlinear_arith);
    assert((q + 1) * sz == q * sz + sz) by (nonlinear_arith);
    vstd::arithmetic::div_mod::lemma_div_pos_is_pos(p, sz);
}
pub proof fn lemma_in_block_div(x: int, q: int, sz: int)
    requires sz > 0, q * sz <= x < (q + 1) * sz,
    ensures x / sz == q,
{
    let r = x - q * sz;
    assert(x == sz * q + r) by (nonlinear_arith) requires r == x - q * sz;
    assert(0 <= r < sz) by (nonlinear_arith) requires r == x - q * sz, q * sz <= x < (q + 1) * sz;
    vstd::arithmetic::div_mod::lemma_fundamental_div_mod_converse(x, sz, q, r);
}

impl BS {
    // cov(0, p) follows the chain of blocks containing page p
    pub proof fn lemma_cov_chain(&self, p: int, j: nat)
        requires 0 <= p, forall|i: int| 0 <= i < j ==> !#[trigger] self.a(i, p / pow2(i as nat)),
        ensures self.cov(0, p) == self.cov(j as int, p / pow2(j)),
        decreases j,
    {
        if j > 0 {
            self.lemma_cov_chain(p, (j - 1) as nat);
            lemma_half(p, (j - 1) as nat);
            assert(!self.a(j - 1, p / pow2((j - 1) as nat)));
        }
    }
    pub proof fn lemma_page_in_free_block(&self, p: int, k: nat)
        requires 0 <= p, self.a(k as int, p / pow2(k)),
        ensures self.cov(0, p),
    {
        lemma_anc_pages(p, 0, k);
        assert(pow2(0) == 1);
        self.lemma_cov_up(0, p, k as int, p / pow2(k));
    }
    pub proof fn lemma_two_orders(&self, p: int, k1: nat, k2: nat)
        requires self.inv1(), 0 <= p, k1 < k2, self.a(k1 as int, p / pow2(k1)), self.a(k2 as int, p / pow2(k2)),
        ensures false,
    {
        lemma_anc_pages(p, k1 + 1, k2);
        lemma_half(p, k1);
        self.lemma_cov_up(k1 as int + 1, p / pow2(k1 + 1), k2 as int, p / pow2(k2));
    }
}

s=open('retry.rs').read()
def rep(a,b):
    global s
    assert s.count(a)==1,(s.count(a),a[:80])
    s=s.replace(a,b)
rep("    pub fn new(region: u32, page_index: u32, page_order: u8) -> Self {","""    pub fn new(region: u32, page_index: u32, page_order: u8) -> (r: Self)
        requires region <= 0x000F_FFFF, page_index <= MAX_PAGE_INDEX, page_order <= MAX_MAX_PAGE_ORDER,
        ensures r.region == region, r.page_index == page_index, r.page_order == page_order,
    {""")
rep("    pub fn allocators_mut(&mut self) -> &mut Allocators {","""    pub fn allocators_mut(&mut self) -> (r: &mut Allocators)
        requires old(self).allocators.is_some(),
        ensures *r == old(self).allocators.unwrap(), final(self).allocators == Some(*final(r)),
    {""")
rep("    pub fn get_region_mut(&mut self, region: u32) -> &mut BuddyAllocator {","""    pub fn get_region_mut(&mut self, region: u32) -> (r: &mut BuddyAllocator)
        requires old(self).allocators.is_some(), (region as int) < old(self).allocators.unwrap().nreg(),
        ensures *r == old(self).allocators.unwrap().region_allocators@[region as int],
            final(self).allocators.is_some(),
            final(self).allocators.unwrap().region_tracker == old(self).allocators.unwrap().region_tracker,
            final(self).allocators.unwrap().region_allocators@ == old(self).allocators.unwrap().region_allocators@.update(region as int, *final(r)),
    {""")
rep("    pub fn get_region_tracker_mut(&mut self) -> &mut RegionTracker {","""    pub fn get_region_tracker_mut(&mut self) -> (r: &mut RegionTracker)
        requires old(self).allocators.is_some(),
        ensures *r == old(self).allocators.unwrap().region_tracker,
            final(self).allocators.is_some(),
            final(self).allocators.unwrap().region_tracker == *final(r),
            final(self).allocators.unwrap().region_allocators == old(self).allocators.unwrap().region_allocators,
    {""")
rep("""        lowest: bool,
    ) -> Result<Option<PageNumber>> {
        loop {""","""        lowest: bool,
    ) -> (res: Result<Option<PageNumber>>)
        requires old(state).allocators.is_some(), old(state).allocators.unwrap().wf(), old(state).allocators.unwrap().trk(),
            required_order <= 20,
        ensures final(state).allocators.is_some(), final(state).allocators.unwrap().wf(), final(state).allocators.unwrap().trk(),
            final(state).allocators.unwrap().nreg() == old(state).allocators.unwrap().nreg(),
            res is Ok,
            res matches Ok(Some(pn)) ==> pn.page_order == required_order && (pn.region as int) < old(state).allocators.unwrap().nreg()
                && old(state).allocators.unwrap().region_allocators@[pn.region as int].st().cov(required_order as int, pn.page_index as int)
                && !final(state).allocators.unwrap().region_allocators@[pn.region as int].st().cov(required_order as int, pn.page_index as int),
            // refused only when no region holds a free block of that order or larger
            res matches Ok(None) ==> forall|r: int, k: int, q: int| 0 <= r < old(state).allocators.unwrap().nreg() && required_order <= k
                ==> !#[trigger] old(state).allocators.unwrap().region_allocators@[r].st().a(k, q),
    {
        loop
            invariant
                state.allocators.is_some(), state.allocators.unwrap().wf(), state.allocators.unwrap().trk(), required_order <= 20,
                state.allocators.unwrap().nreg() == old(state).allocators.unwrap().nreg(),
                forall|r: int| 0 <= r < state.allocators.unwrap().nreg() ==>
                    (#[trigger] state.allocators.unwrap().region_allocators@[r]).st() == old(state).allocators.unwrap().region_allocators@[r].st(),
        {
            let ghost a0 = state.allocators.unwrap();""")
rep("""            else {
                return Ok(None);
            };""","""            else {
                proof {
                    let o0 = old(state).allocators.unwrap();
                    assert forall|r: int, k: int, q: int| 0 <= r < o0.nreg() && required_order <= k
                        implies !#[trigger] o0.region_allocators@[r].st().a(k, q) by {
                        assert(a0.region_allocators@[r].st() == o0.region_allocators@[r].st());
                        if a0.region_allocators@[r].st().a(k, q) {
                            assert(a0.has_free_ge(r, required_order as int));
                            assert(a0.region_tracker.may_be_free(required_order as int, r));
                        }
                    }
                }
                return Ok(None);
            };
            proof { assert(a0.region_tracker.may_be_free(required_order as int, candidate_region as int)); }""")
rep("""            if let Some(page) = r {
                return Ok(Some(PageNumber::new(""","""            let ghost a1 = state.allocators.unwrap();
            if let Some(page) = r {
                proof {
                    Allocators::lemma_trk_after_alloc(a0, a1, candidate_region as int);
                    a0.region_allocators@[candidate_region as int].lemma_len_bounds(required_order as int);
                }
                return Ok(Some(PageNumber::new(""")
rep("""            state
                .get_region_tracker_mut()
                .mark_full(required_order, candidate_region);""","""            proof {
                let c = candidate_region as int;
                assert(a1.region_allocators@[c].free@ == a0.region_allocators@[c].free@);
                assert(a1.region_allocators@[c].st() == a0.region_allocators@[c].st());
                assert forall|r: int| 0 <= r < a1.nreg() implies (#[trigger] a1.region_allocators@[r]).st() == a0.region_allocators@[r].st() by {}
                Allocators::lemma_same_states(a0, a1);
            }
            state
                .get_region_tracker_mut()
                .mark_full(required_order, candidate_region);
            proof { Allocators::lemma_trk_after_full(a1, state.allocators.unwrap(), candidate_region as int, required_order as int); }""")
# lemmas
rep("impl InMemoryState {","""impl BS {
    pub proof fn lemma_cov_has_free(&self, j: int, y: int)
        requires self.cov(j, y), 0 <= j,
        ensures exists|k: int, q: int| j <= k && #[trigger] self.a(k, q),
        decreases self.m + 1 - j,
    {
        if !self.a(j, y) { self.lemma_cov_has_free(j + 1, y / 2); }
    }
}
impl BuddyAllocator {
    pub proof fn lemma_len_bounds(&self, k: int)
        requires self.shape(), self.len <= 0x10_0000, 0 <= k <= self.max_order,
        ensures self.ord(k).len <= 0x10_0000,
    {
        lemma_pow2_pos(k as nat);
        assert(self.free@[k].leaf().len as int == self.len as int / pow2(k as nat));
        vstd::arithmetic::div_mod::lemma_div_is_ordered_by_denominator(self.len as int, 1, pow2(k as nat));
    }
}
impl Allocators {
    // a successful alloc in region c keeps TRK: every free block afterwards lies under a block that was free before
    pub proof fn lemma_trk_after_alloc(a: Allocators, b: Allocators, c: int)
        requires a.wf(), a.trk(), 0 <= c < a.nreg(), b.region_tracker == a.region_tracker,
            b.region_allocators@.len() == a.region_allocators@.len(),
            forall|r: int| 0 <= r < a.nreg() && r != c ==> #[trigger] b.region_allocators@[r] == a.region_allocators@[r],
            b.region_allocators@[c].wf2(), b.region_allocators@[c].len == a.region_allocators@[c].len,
            forall|j: int, y: int| #[trigger] b.region_allocators@[c].st().a(j, y) ==> a.region_allocators@[c].st().cov(j, y),
        ensures b.wf(), b.trk(),
    {
        assert forall|r: int, o: int| 0 <= r < b.nreg() && 0 <= o < 21 && #[trigger] b.has_free_ge(r, o) implies b.region_tracker.may_be_free(o, r) by {
            if r == c {
                let (k, q) = choose|k: int, q: int| o <= k && #[trigger] b.region_allocators@[c].st().a(k, q);
                a.region_allocators@[c].st().lemma_cov_has_free(k, q);
                assert(a.has_free_ge(c, o));
            } else {
                assert(a.has_free_ge(r, o));
            }
        }
    }
    // two allocator sets with the same tracker and the same ghost states are interchangeable
    pub proof fn lemma_same_states(a: Allocators, b: Allocators)
        requires a.wf(), a.trk(), b.region_tracker == a.region_tracker, b.nreg() == a.nreg(),
            forall|r: int| 0 <= r < a.nreg() ==> (#[trigger] b.region_allocators@[r]).st() == a.region_allocators@[r].st()
                && b.region_allocators@[r].wf2() && b.region_allocators@[r].len == a.region_allocators@[r].len,
        ensures b.wf(), b.trk(),
    {
        assert forall|r: int, o: int| 0 <= r < b.nreg() && 0 <= o < 21 && #[trigger] b.has_free_ge(r, o) implies b.region_tracker.may_be_free(o, r) by {
            assert(a.has_free_ge(r, o));
        }
    }
    // alloc(o) failed in region c (nothing of order >= o is free there); marking it full at orders >= o keeps TRK
    pub proof fn lemma_trk_after_full(a: Allocators, b: Allocators, c: int, o: int)
        requires a.wf(), a.trk(), 0 <= c < a.nreg(), 0 <= o < 21,
            b.region_allocators == a.region_allocators, b.region_tracker.wf(),
            b.region_tracker.regions() == a.region_tracker.regions(), b.region_tracker.order_trackers@.len() == 21,
            forall|k: int, q: int| o <= k ==> !#[trigger] a.region_allocators@[c].st().a(k, q),
            forall|o2: int, r: int| 0 <= o2 < 21 && 0 <= r < a.region_tracker.regions() ==>
                #[trigger] b.region_tracker.may_be_free(o2, r) == (a.region_tracker.may_be_free(o2, r) && !(o2 >= o && r == c)),
        ensures b.wf(), b.trk(),
    {
        assert forall|r: int, o2: int| 0 <= r < b.nreg() && 0 <= o2 < 21 && #[trigger] b.has_free_ge(r, o2) implies b.region_tracker.may_be_free(o2, r) by {
            assert(a.has_free_ge(r, o2));
        }
    }
}
impl InMemoryState {""")
# wf needs len bound for PageNumber::new's debug_assert
rep("""        && (forall|r: int| 0 <= r < self.nreg() ==> (#[trigger] self.region_allocators@[r]).wf2())""","""        && self.region_tracker.regions() <= 0x10_0000
        && (forall|r: int| 0 <= r < self.nreg() ==> (#[trigger] self.region_allocators@[r]).wf2() && self.region_allocators@[r].len <= 0x10_0000)""")
open('retry.rs','w').write(s)

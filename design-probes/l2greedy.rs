impl BS {
    // the state BuddyAllocator::new leaves behind: greedy decomposition of [0, N) into maximal aligned blocks
    pub open spec fn greedy(&self) -> bool {
        forall|k: int, q: int| #[trigger] self.a(k, q) <==>
            (0 <= k <= self.m && 0 <= q < self.n(k) && (k == self.m || (q == self.n(k) - 1 && self.n(k) % 2 == 1)))
    }
    pub proof fn lemma_greedy_wf(&self)
        requires self.greedy(), self.halving(), 0 <= self.m, forall|j: int| 0 <= j <= self.m ==> #[trigger] self.n(j) >= 0,
        ensures self.inv1(), self.inv2(),
    {
        assert forall|k: int, q: int| #[trigger] self.a(k, q) implies !self.cov(k + 1, q / 2) by {
            if k < self.m {
                assert(self.n(k + 1) == self.n(k) / 2);
                assert(q / 2 == self.n(k + 1));
                self.lemma_out_of_range_not_cov(k + 1, q / 2);
            } else {
                reveal_with_fuel(BS::cov, 2);
            }
        }
        assert forall|k: int, q: int| #[trigger] self.a(k, q) && k < self.m && 0 <= sbuddy(q) < self.n(k) implies !self.a(k, sbuddy(q)) by {
            assert(q == self.n(k) - 1 && self.n(k) % 2 == 1);
            assert(sbuddy(q) == self.n(k));
        }
    }
}


// ghost state of the allocator: the per-order bitmaps and the maximum order
pub struct BS { pub fs: Seq<BtreeBitmap>, pub m: int }
impl BuddyAllocator {
    pub open spec fn st(&self) -> BS { BS { fs: self.free@, m: self.max_order as int } }
    pub open spec fn wf2(&self) -> bool { self.shape() && self.st().inv1() && self.st().inv2() }
}
// ---- layer 2 vocabulary and lemmas (pure spec/proof; appended to bd.rs before main) ----
impl BS {
    pub open spec fn n(&self, k: int) -> int { self.fs[k].leaf().len as int }
    // block (k, q) is marked free
    pub open spec fn a(&self, k: int, q: int) -> bool {
        0 <= k <= self.m && 0 <= q < self.n(k) && !self.fs[k].leaf().bit_at(q)
    }
    // block (k, q) lies inside a free block (itself or an ancestor)
    pub open spec fn cov(&self, k: int, q: int) -> bool
        decreases self.m + 1 - k
    {
        if k < 0 || k > self.m { false } else { self.a(k, q) || self.cov(k + 1, q / 2) }
    }
    pub open spec fn inv1(&self) -> bool {
        forall|k: int, q: int| #[trigger] self.a(k, q) ==> !self.cov(k + 1, q / 2)
    }
    pub open spec fn inv2(&self) -> bool {
        forall|k: int, q: int| #[trigger] self.a(k, q) && k < self.m && 0 <= sbuddy(q) < self.n(k) ==> !self.a(k, sbuddy(q))
    }

    // levels >= k0 carry the same marks in self and o
    pub open spec fn same_from(&self, o: BS, k0: int) -> bool {
        self.m == o.m
        && forall|k: int, q: int| k0 <= k ==> #[trigger] self.a(k, q) == o.a(k, q)
    }
    // self has no free block that o does not have
    pub open spec fn fewer(&self, o: BS) -> bool {
        self.m == o.m
        && forall|k: int, q: int| #[trigger] self.a(k, q) ==> o.a(k, q)
    }

    pub proof fn lemma_cov_frame(&self, o: BS, k0: int, k: int, q: int)
        requires self.same_from(o, k0), k0 <= k,
        ensures self.cov(k, q) == o.cov(k, q),
        decreases self.m + 1 - k,
    {
        if 0 <= k <= self.m {
            assert(self.a(k, q) == o.a(k, q));
            self.lemma_cov_frame(o, k0, k + 1, q / 2);
        }
    }
    pub proof fn lemma_cov_mono(&self, o: BS, k: int, q: int)
        requires self.fewer(o), self.cov(k, q),
        ensures o.cov(k, q),
        decreases self.m + 1 - k,
    {
        if 0 <= k <= self.m {
            if self.a(k, q) { assert(o.a(k, q)); } else { self.lemma_cov_mono(o, k + 1, q / 2); }
        }
    }
    // removing free blocks keeps inv1 and inv2
    pub proof fn lemma_fewer_keeps_inv(&self, o: BS)
        requires self.fewer(o), o.inv1(), o.inv2(), forall|k: int| 0 <= k <= o.m ==> #[trigger] self.n(k) == o.n(k),
        ensures self.inv1(), self.inv2(),
    {
        assert forall|k: int, q: int| #[trigger] self.a(k, q) implies !self.cov(k + 1, q / 2) by {
            assert(o.a(k, q));
            if self.cov(k + 1, q / 2) { self.lemma_cov_mono(o, k + 1, q / 2); }
        }
        assert forall|k: int, q: int| #[trigger] self.a(k, q) && k < self.m && 0 <= sbuddy(q) < self.n(k) implies !self.a(k, sbuddy(q)) by {
            assert(o.a(k, q));
            if self.a(k, sbuddy(q)) { assert(o.a(k, sbuddy(q))); }
        }
    }
}
// (o, q) is an ancestor-or-self of (k, x)
pub open spec fn is_anc(k: int, x: int, o: int, q: int) -> bool
    decreases o - k
{
    if k > o { false } else if k == o { x == q } else { is_anc(k + 1, x / 2, o, q) }
}
pub proof fn lemma_anc_up(k: int, x: int, o: int, q: int)
    requires is_anc(k, x, o, q),
    ensures is_anc(k, x, o + 1, q / 2),
    decreases o - k,
{
    reveal_with_fuel(is_anc, 3);
    if k < o { lemma_anc_up(k + 1, x / 2, o, q); }
}

impl BS {
    // self = o plus the single free block (ko, qo)
    pub open spec fn added(&self, o: BS, ko: int, qo: int) -> bool {
        self.m == o.m && self.a(ko, qo) && !o.a(ko, qo)
        && forall|k: int, q: int| !(k == ko && q == qo) ==> #[trigger] self.a(k, q) == o.a(k, q)
    }
    pub proof fn lemma_cov_up(&self, k: int, x: int, o: int, q: int)
        requires is_anc(k, x, o, q), self.cov(o, q), 0 <= k,
        ensures self.cov(k, x),
        decreases o - k,
    {
        if k < o { self.lemma_cov_up(k + 1, x / 2, o, q); }
    }
    pub proof fn lemma_cov_added(&self, o: BS, ko: int, qo: int, k: int, x: int)
        requires self.added(o, ko, qo),
        ensures self.cov(k, x) == (o.cov(k, x) || (0 <= k && is_anc(k, x, ko, qo))),
        decreases self.m + 1 - k,
    {
        if 0 <= k <= self.m {
            self.lemma_cov_added(o, ko, qo, k + 1, x / 2);
            if !(k == ko && x == qo) { assert(self.a(k, x) == o.a(k, x)); }
        }
    }
    pub proof fn lemma_added_keeps_inv(&self, o: BS, ko: int, qo: int)
        requires
            self.added(o, ko, qo), o.inv1(), o.inv2(),
            forall|k: int| 0 <= k <= o.m ==> #[trigger] self.n(k) == o.n(k),
            !o.cov(ko + 1, qo / 2),
            forall|j: int, y: int| #[trigger] o.a(j, y) && j < ko ==> !is_anc(j, y, ko, qo),
            ko < o.m && 0 <= sbuddy(qo) < o.n(ko) ==> !o.a(ko, sbuddy(qo)),
        ensures self.inv1(), self.inv2(),
    {
        assert forall|k: int, q: int| #[trigger] self.a(k, q) implies !self.cov(k + 1, q / 2) by {
            self.lemma_cov_added(o, ko, qo, k + 1, q / 2);
            if k == ko && q == qo {
            } else {
                assert(o.a(k, q));
                if is_anc(k + 1, q / 2, ko, qo) { assert(is_anc(k, q, ko, qo)); }
            }
        }
        assert forall|k: int, q: int| #[trigger] self.a(k, q) && k < self.m && 0 <= sbuddy(q) < self.n(k) implies !self.a(k, sbuddy(q)) by {
            if k == ko && q == qo {
                assert(self.a(ko, sbuddy(qo)) == o.a(ko, sbuddy(qo)));
            } else {
                assert(o.a(k, q));
                if k == ko && sbuddy(q) == qo {
                    assert(sbuddy(qo) == q);
                } else {
                    assert(self.a(k, sbuddy(q)) == o.a(k, sbuddy(q)));
                }
            }
        }
    }
}

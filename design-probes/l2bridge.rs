impl BS {
    // all pages of block (o, q) are free
    pub open spec fn block_all_free(&self, o: int, q: int) -> bool {
        forall|p: int| #[trigger] is_anc(0, p, o, q) ==> self.cov(0, p)
    }
    // Bridge (needs I2): an in-range aligned block whose pages are all free lies inside a free block of at least its order
    pub proof fn lemma_bridge(&self, o: int, q: int)
        requires self.inv2(), self.halving(), 0 <= o <= self.m, 0 <= q < self.n(o), self.block_all_free(o, q),
            forall|j: int| 0 <= j <= self.m ==> #[trigger] self.n(j) >= 0,
        ensures self.cov(o, q),
        decreases o,
    {
        reveal_with_fuel(is_anc, 2);
        if o == 0 {
            assert(is_anc(0, q, 0, q));
        } else {
            assert(self.n(o - 1 + 1) == self.n(o - 1) / 2);
            let c0 = 2 * q;
            let c1 = 2 * q + 1;
            assert(c0 / 2 == q && c1 / 2 == q);
            assert forall|p: int| #[trigger] is_anc(0, p, o - 1, c0) implies self.cov(0, p) by { lemma_anc_up(0, p, o - 1, c0); }
            assert forall|p: int| #[trigger] is_anc(0, p, o - 1, c1) implies self.cov(0, p) by { lemma_anc_up(0, p, o - 1, c1); }
            self.lemma_bridge(o - 1, c0);
            self.lemma_bridge(o - 1, c1);
            if !self.cov(o, q) {
                assert(self.a(o - 1, c0));
                assert(self.a(o - 1, c1));
                assert(sbuddy(c0) == c1);
            }
        }
    }
    // "a request is refused only when no aligned free block of that size exists"
    pub proof fn lemma_refusal_justified(&self, o: int, q: int)
        requires self.inv2(), self.halving(), 0 <= o <= self.m, 0 <= q < self.n(o),
            forall|j: int| 0 <= j <= self.m ==> #[trigger] self.n(j) >= 0,
            forall|k: int, x: int| o <= k ==> !#[trigger] self.a(k, x),          // what alloc(o) == None guarantees
        ensures !self.block_all_free(o, q),
    {
        if self.block_all_free(o, q) {
            self.lemma_bridge(o, q);
            self.lemma_cov_has_free(o, q);
        }
    }
}

from splice import *
s=open('bm.rs').read()
i=s.index("// Returns a u64 with bits `lo..hi` set")
j=s.index("fn main() {}")
body=s[i:j]
body=body.replace("    len: u32,\n    data: Vec<u64>,","    pub len: u32,\n    pub data: Vec<u64>,")
specs=[
("fn bits_in_range(lo: u32, hi: u32)", """    requires lo < hi, hi <= 64,
    ensures forall|j: u64| j < 64 ==> #[trigger] wbit(r, j) == (lo <= j < hi),"""),
("    fn required_words(elements: u32)", """        ensures r as int == (elements as int + 63) / 64,"""),
("    pub fn new_full(len: u32, capacity: u32)", """        requires len <= capacity,
        ensures r.wf(), r.len == len, r.data@.len() == (capacity as int + 63) / 64,
            forall|i: int| 0 <= i < r.cap() ==> #[trigger] r.bit_at(i),"""),
("    fn data_index_of(bit: u32)", """        ensures r.0 == bit as int / 64, r.1 == bit as int % 64,"""),
("    fn select_mask(bit: usize)", """        requires bit < 64,
        ensures r == 1u64 << (bit as u64),"""),
("    fn first_unset(&self, start_bit: u32, end_bit: u32)", """        requires self.wf(), end_bit as int == (start_bit - start_bit % 64) + 64,
            self.len == 0 || (start_bit as int) < self.cap(),
        ensures
            match r {
                Some(x) => self.len > 0 && start_bit <= x < end_bit && !self.bit_at(x as int)
                    && forall|y: int| start_bit <= y < x ==> #[trigger] self.bit_at(y),
                None => self.len == 0 || forall|y: int| start_bit <= y < end_bit ==> #[trigger] self.bit_at(y),
            },"""),
("    pub fn len(&self) -> u32 {\n        self.len", """        ensures r == self.len,"""),
("    pub fn get(&self, bit: u32)", """        requires self.wf(), bit < self.len,
        ensures r == self.bit_at(bit as int),"""),
("    pub fn set(&mut self, bit: u32)", """        requires old(self).wf(), bit < old(self).len,
        ensures final(self).wf(), final(self).len == old(self).len, final(self).data@.len() == old(self).data@.len(),
            final(self).bit_at(bit as int),
            forall|j: int| 0 <= j < old(self).cap() && j != bit ==> #[trigger] final(self).bit_at(j) == old(self).bit_at(j),
            forall|w: int| 0 <= w < old(self).data@.len() && w != bit as int / 64 ==> #[trigger] final(self).data@[w] == old(self).data@[w],
            r == (final(self).data@[bit as int / 64] == u64::MAX),"""),
("    pub fn clear(&mut self, bit: u32)", """        requires old(self).wf(), bit < old(self).len,
        ensures final(self).wf(), final(self).len == old(self).len, final(self).data@.len() == old(self).data@.len(),
            !final(self).bit_at(bit as int),
            forall|j: int| 0 <= j < old(self).cap() && j != bit ==> #[trigger] final(self).bit_at(j) == old(self).bit_at(j),
            forall|w: int| 0 <= w < old(self).data@.len() && w != bit as int / 64 ==> #[trigger] final(self).data@[w] == old(self).data@[w],
            final(self).data@[bit as int / 64] != u64::MAX,"""),
]
body=splice(body,specs)
# ---- in-body proof hints (anchored on statement text; the real tool anchors on statement ordinals)
body=insert_before(body, "    bits_at_or_above_lo & bits_below_hi\n", '''    proof {
        let lo64 = lo as u64; let sh = (64 - hi) as u64;
        assert forall|j: u64| j < 64 implies #[trigger] wbit(bits_at_or_above_lo & bits_below_hi, j) == (lo <= j < hi) by {
            assert(((((0xffff_ffff_ffff_ffffu64 << lo64) & (0xffff_ffff_ffff_ffffu64 >> sh)) >> j) & 1u64 == 1u64) <==> (lo64 <= j && j < 64 - sh)) by (bit_vector)
                requires lo64 < 64, sh < 64, j < 64;
        }
    }
''')
body=insert_before(body, "        Self { len, data }\n    }\n\n    #[verifier::external_body]\n    pub fn xxh3_hash", '''        proof {
            lemma_wbit_max(u64::MAX);
            assert forall|i: int| 0 <= i < data@.len() * 64 implies #[trigger] wbit(data@[i / 64], (i % 64) as u64) by {
                assert(data@[i / 64] == u64::MAX);
            }
        }
''')
body=insert_before(body, "        group & U64GroupedBitmap::select_mask(bit_index) != 0\n", '''        proof { lemma_wbit_mask(group, bit_index as u64); }
''')
body=insert_before(body, "        group == u64::MAX\n", '''        proof {
            let ob = old(self).data@[index as int];
            assert forall|j: int| 0 <= j < old(self).cap() && j != bit implies #[trigger] self.bit_at(j) == old(self).bit_at(j) by {
                if j / 64 == index as int {
                    lemma_wbit_or(ob, bit_index as u64, (j % 64) as u64);
                }
            }
            lemma_wbit_or(ob, bit_index as u64, bit_index as u64);
        }
''')
body=insert_before(body, "        self.data[index] &= !Self::select_mask(bit_index);\n    }", '''        let ghost ob = self.data@[index as int];
''')
body=body.replace("        self.data[index] &= !Self::select_mask(bit_index);\n    }", '''        self.data[index] &= !Self::select_mask(bit_index);
        proof {
            assert forall|j: int| 0 <= j < old(self).cap() && j != bit implies #[trigger] self.bit_at(j) == old(self).bit_at(j) by {
                if j / 64 == index as int {
                    lemma_wbit_andnot(ob, bit_index as u64, (j % 64) as u64);
                }
            }
            lemma_wbit_andnot(ob, bit_index as u64, bit_index as u64);
            lemma_wbit_max(self.data@[index as int]);
        }
    }''')
body=insert_before(body, "        let mask = (1 << bit) - 1;\n        let group = self.data[index];\n        let group = group | mask;\n        match", '''        proof {
            assert((1u64 << (bit as u64)) >= 1) by (bit_vector) requires (bit as u64) < 64;
        }
''')
body=insert_before(body, "        match group.trailing_ones() {", '''        proof {
            let g0 = self.data@[index as int];
            let b = bit as u64;
            lemma_trailing_ones(group);
            // bits below `bit` are forced to 1 by the mask; the others are those of the word
            assert forall|j: u64| j < 64 implies #[trigger] wbit(group, j) == (j < b || wbit(g0, j)) by {
                assert((((g0 | (((1u64 << b) - 1) as u64)) >> j) & 1u64 == 1u64) <==> (j < b || ((g0 >> j) & 1u64 == 1u64))) by (bit_vector)
                    requires b < 64, j < 64;
            }
            let t = vstd::std_specs::bits::u64_trailing_ones(group);
            if t < 64 {
                assert(!wbit(group, t as u64));
                assert(t as u64 >= b);
            }
            assert forall|y: int| start_bit <= y < start_bit - b + t && y < end_bit implies #[trigger] self.bit_at(y) by {
                assert(y / 64 == index as int);
                assert(wbit(group, (y % 64) as u64));
            }
        }
''')
pre='''use vstd::prelude::*;
verus! {
#[verifier::external_body]
pub fn xxh3_checksum(data: &[u8]) -> u128 { unimplemented!() }
#[verifier::external_body]
pub fn div_ceil_u32(x: u32, y: u32) -> (r: u32) requires y > 0 ensures r as int == (x as int + y as int - 1) / (y as int) { x.div_ceil(y) }

pub open spec fn wbit(w: u64, j: u64) -> bool { (w >> j) & 1u64 == 1u64 }

impl U64GroupedBitmap {
    pub open spec fn cap(&self) -> int { self.data@.len() as int * 64 }
    pub open spec fn bit_at(&self, i: int) -> bool { wbit(self.data@[i / 64], (i % 64) as u64) }
    pub open spec fn wf(&self) -> bool {
        self.len as int <= self.cap()
        && forall|i: int| self.len <= i < self.cap() ==> #[trigger] self.bit_at(i)
    }
}

pub proof fn lemma_wbit_or(w: u64, b: u64, j: u64)
    requires b < 64, j < 64,
    ensures wbit(w | (1u64 << b), j) == (j == b || wbit(w, j)),
{
    assert(((w | (1u64 << b)) >> j) & 1u64 == 1u64 <==> (j == b || (w >> j) & 1u64 == 1u64)) by (bit_vector)
        requires b < 64, j < 64;
}
pub proof fn lemma_wbit_andnot(w: u64, b: u64, j: u64)
    requires b < 64, j < 64,
    ensures wbit(w & !(1u64 << b), j) == (j != b && wbit(w, j)),
{
    assert(((w & !(1u64 << b)) >> j) & 1u64 == 1u64 <==> (j != b && (w >> j) & 1u64 == 1u64)) by (bit_vector)
        requires b < 64, j < 64;
}
pub proof fn lemma_wbit_mask(w: u64, b: u64)
    requires b < 64,
    ensures (w & (1u64 << b) != 0) == wbit(w, b),
{
    assert((w & (1u64 << b) != 0) <==> ((w >> b) & 1u64 == 1u64)) by (bit_vector) requires b < 64;
}
pub proof fn lemma_not_bit(w: u64, j: u64)
    requires j < 64,
    ensures ((!w >> j) & 1u64 == 1u64) <==> !wbit(w, j), ((!w >> j) & 1u64 == 0u64) <==> wbit(w, j),
{
    assert((((!w) >> j) & 1u64 == 1u64) <==> !((w >> j) & 1u64 == 1u64)) by (bit_vector) requires j < 64;
    assert((((!w) >> j) & 1u64 == 0u64) <==> ((w >> j) & 1u64 == 1u64)) by (bit_vector) requires j < 64;
}

// what `trailing_ones` means, in terms of wbit
pub proof fn lemma_trailing_ones(w: u64)
    ensures
        vstd::std_specs::bits::u64_trailing_ones(w) <= 64,
        vstd::std_specs::bits::u64_trailing_ones(w) == 64 <==> w == u64::MAX,
        vstd::std_specs::bits::u64_trailing_ones(w) < 64 ==> !wbit(w, vstd::std_specs::bits::u64_trailing_ones(w) as u64),
        forall|j: u64| j < vstd::std_specs::bits::u64_trailing_ones(w) ==> #[trigger] wbit(w, j),
{
    vstd::std_specs::bits::axiom_u64_trailing_zeros(!w);
    let tz = vstd::std_specs::bits::u64_trailing_zeros(!w);
    assert(!w == 0 <==> w == 0xffff_ffff_ffff_ffffu64) by (bit_vector);
    if tz < 64 {
        lemma_not_bit(w, tz as u64);
    }
    assert forall|j: u64| j < tz implies #[trigger] wbit(w, j) by {
        assert(((!w >> j) & 1u64) == 0u64);
        lemma_not_bit(w, j);
    }
}

pub proof fn lemma_wbit_max(w: u64)
    ensures (w == u64::MAX) <==> (forall|j: u64| j < 64 ==> #[trigger] wbit(w, j)),
{
    lemma_trailing_ones(w);
    if w == u64::MAX {
        assert forall|j: u64| j < 64 implies #[trigger] wbit(w, j) by {
            assert(((0xffff_ffff_ffff_ffffu64 >> j) & 1u64) == 1u64) by (bit_vector) requires j < 64;
        }
    } else {
        let t = vstd::std_specs::bits::u64_trailing_ones(w) as u64;
        assert(!wbit(w, t));
    }
}

'''
open('u64.rs','w').write(pre+body+"\nfn main() {}\n}\n")

impl BS {
    // the per-order lengths halve: n(k+1) == n(k) / 2
    pub open spec fn halving(&self) -> bool {
        forall|k: int| 0 <= k < self.m ==> #[trigger] self.n(k + 1) == self.n(k) / 2
    }
    // an index at or beyond the end of its level is not inside any free block
    pub proof fn lemma_out_of_range_not_cov(&self, k: int, x: int)
        requires self.halving(), 0 <= k, x >= self.n(k), forall|j: int| 0 <= j <= self.m ==> #[trigger] self.n(j) >= 0,
        ensures !self.cov(k, x),
        decreases self.m + 1 - k,
    {
        reveal_with_fuel(BS::cov, 2);
        if k <= self.m {
            assert(!self.a(k, x));
            if k < self.m {
                assert(self.n(k + 1) == self.n(k) / 2);
                self.lemma_out_of_range_not_cov(k + 1, x / 2);
            } else {
                assert(!self.cov(k + 1, x / 2));
            }
        }
    }

    // record_alloc, split case: parent (k0+1, u) was taken out of a free block by the recursive call;
    // `keep` stays allocated, its buddy `give` becomes free
    pub proof fn lemma_record_case_split(s: BS, s1: BS, f: BS, k0: int, u: int, keep: int)
        requires
            s.inv1(), s1.inv1(), s1.inv2(), s1.m == s.m, f.m == s.m, 0 <= k0 < s.m, 0 <= u, 0 <= keep,
            keep / 2 == u, 0 <= sbuddy(keep) < s.n(k0), keep < s.n(k0),
            forall|k: int| 0 <= k <= k0 ==> #[trigger] s1.fs[k] == s.fs[k],
            s.cov(k0 + 1, u), !s1.cov(k0 + 1, u),
            s.fs[k0].leaf().bit_at(keep),
            forall|k: int| 0 <= k <= s.m && k != k0 ==> #[trigger] f.fs[k] == s1.fs[k],
            f.fs[k0].leaf().len == s1.fs[k0].leaf().len,
            !f.fs[k0].leaf().bit_at(sbuddy(keep)),
            forall|j: int| 0 <= j < s.n(k0) && j != sbuddy(keep) ==> #[trigger] f.fs[k0].leaf().bit_at(j) == s1.fs[k0].leaf().bit_at(j),
            forall|k: int, y: int| 0 <= k <= k0 + 1 ==> #[trigger] s1.cov(k, y) == (s.cov(k, y) && !is_anc(k, y, k0 + 1, u)),
        ensures f.inv1(), f.inv2(), s.cov(k0, keep), !f.cov(k0, keep),
            forall|k: int, y: int| 0 <= k <= k0 ==> #[trigger] f.cov(k, y) == (s.cov(k, y) && !is_anc(k, y, k0, keep)),
    {
        let give = sbuddy(keep);
        assert(give / 2 == u);
        assert(sbuddy(give) == keep);
        assert(s1.fs[k0] == s.fs[k0]);
        assert forall|k: int| 0 <= k <= s.m implies #[trigger] f.n(k) == s1.n(k) by {}
        // the sibling cannot have been free: its parent was covered
        if s.a(k0, give) { assert(!s.cov(k0 + 1, give / 2)); }
        assert(f.added(s1, k0, give)) by {
            assert forall|k: int, q: int| !(k == k0 && q == give) implies #[trigger] f.a(k, q) == s1.a(k, q) by {
                if k == k0 { if 0 <= q < s.n(k0) { assert(f.fs[k0].leaf().bit_at(q) == s1.fs[k0].leaf().bit_at(q)); } }
            }
        }
        assert forall|j: int, y: int| #[trigger] s1.a(j, y) && j < k0 implies !is_anc(j, y, k0, give) by {
            if is_anc(j, y, k0, give) {
                assert(is_anc(j + 1, y / 2, k0, give));
                lemma_anc_up(j + 1, y / 2, k0, give);
                s.lemma_cov_up(j + 1, y / 2, k0 + 1, u);
                assert(s.a(j, y));
            }
        }
        assert(!s1.a(k0, keep));
        f.lemma_added_keeps_inv(s1, k0, give);
        assert(s.cov(k0, keep));
        assert(f.same_from(s1, k0 + 1)) by {
            assert forall|k: int, q: int| k0 + 1 <= k implies #[trigger] f.a(k, q) == s1.a(k, q) by {}
        }
        f.lemma_cov_frame(s1, k0 + 1, k0 + 1, u);
        assert(!f.a(k0, keep));
        BS::lemma_view_split(s, s1, f, k0, u, keep);
    }
}

from splice import *
base=open('bt.rs').read()
base=base[:base.index("\nfn main() {}")]
body=open('bd_body.rs').read()
def drop_between(body,a,b):
    i=body.index(a); j=body.index(b); return body[:i]+body[j:]
# keep only: helpers, struct, get_max_order, find_free_order, len, alloc, alloc_inner, record_alloc(_inner), free(_inner), get_order_free(_mut)
body=drop_between(body,"    pub fn new(num_pages: u32, max_page_capacity: u32) -> Self {","    pub fn get_max_order(&self) -> u8 {")
body=drop_between(body,"    pub fn resize(&mut self, new_size: u32) {","    pub fn alloc(&mut self, order: u8) -> Option<u32> {")
body=body.replace("    free: Vec<BtreeBitmap>,\n    len: u32,\n    max_order: u8,","    pub free: Vec<BtreeBitmap>,\n    pub len: u32,\n    pub max_order: u8,")
body=body.replace("fn calculate_usable_order(pages: u32) -> u8 {","fn calculate_usable_order(pages: u32) -> u8\n    requires pages > 0\n{")
specs=[
("fn next_higher_order(page_number: u32)", "    ensures r == page_number / 2,"),
("fn buddy_page(page_number: u32)", "    ensures r as int == sbuddy(page_number as int),"),
("    pub fn get_max_order(&self)", "        ensures r == self.max_order,"),
("    pub fn len(&self) -> u32 {\n        self.len", "        ensures r == self.len,"),
("    fn get_order_free_mut(&mut self, order: u8)", """        requires (order as int) < old(self).free@.len(),
        ensures *r == old(self).free@[order as int],
            final(self).free@ == old(self).free@.update(order as int, *final(r)),
            final(self).len == old(self).len, final(self).max_order == old(self).max_order,"""),
("    fn get_order_free(&self, order: u8)", """        requires (order as int) < self.free@.len(),
        ensures *r == self.free@[order as int],"""),
("    fn find_free_order(&self, mut page: u32)", """        requires self.shape(),
        ensures r matches Some(k) ==> k <= self.max_order && self.st().a(k as int, page as int / pow2(k as nat))
                    && self.st().cov(0, page as int),
            r is None ==> !self.st().cov(0, page as int),"""),
("    pub fn trailing_free_pages(&self)", """        requires self.wf2(), self.len > 0,
        ensures r <= self.len, forall|p: int| self.len - r <= p < self.len ==> #[trigger] self.st().cov(0, p),"""),
("    pub fn alloc(&mut self, order: u8)", """        requires old(self).shape(),
        ensures final(self).shape(), final(self).same_shape(*old(self)),
            r matches Some(p) ==> order <= old(self).max_order && (p as int) < old(self).ord(order as int).len,"""),
("    pub fn alloc_inner(&mut self, order: u8)", """        requires old(self).shape(),
        ensures final(self).shape(), final(self).same_shape(*old(self)),
            r matches Some(p) ==> order <= old(self).max_order && (p as int) < old(self).ord(order as int).len
                && final(self).ord(order as int).bit_at(p as int),
            r is None ==> final(self).free@ == old(self).free@,
            forall|k: int| 0 <= k < order && k < old(self).free@.len() ==> #[trigger] final(self).free@[k] == old(self).free@[k],
        decreases 255 - order,"""),
("    pub fn record_alloc(&mut self, page_number: u32, order: u8)", """        requires old(self).shape(),
        ensures final(self).shape(), final(self).same_shape(*old(self)),
            r ==> order <= old(self).max_order && (page_number as int) < old(self).ord(order as int).len,"""),
("    pub fn record_alloc_inner(&mut self, page_number: u32, order: u8)", """        requires old(self).shape(),
        ensures final(self).shape(), final(self).same_shape(*old(self)),
            r ==> order <= old(self).max_order && (page_number as int) < old(self).ord(order as int).len
                && final(self).ord(order as int).bit_at(page_number as int),
            !r ==> final(self).free@ == old(self).free@,
            forall|k: int| 0 <= k < order && k < old(self).free@.len() ==> #[trigger] final(self).free@[k] == old(self).free@[k],
        decreases 255 - order,"""),
("    pub fn free(&mut self, page_number: u32, order: u8)", """        requires old(self).shape(), order <= old(self).max_order, (page_number as int) < old(self).ord(order as int).len,
            old(self).ord(order as int).bit_at(page_number as int),
        ensures final(self).shape(), final(self).same_shape(*old(self)), order <= r <= old(self).max_order,"""),
("    pub fn free_inner(&mut self, page_number: u32, order: u8)", """        requires old(self).shape(), order <= old(self).max_order, (page_number as int) < old(self).ord(order as int).len,
        ensures final(self).shape(), final(self).same_shape(*old(self)), order <= r <= old(self).max_order,
        decreases old(self).max_order - order,"""),
]
body=splice(body,specs)
pre='''
pub open spec fn pow2(e: nat) -> int decreases e { if e == 0 { 1 } else { 2 * pow2((e - 1) as nat) } }
pub open spec fn sbuddy(q: int) -> int { if q % 2 == 0 { q + 1 } else { q - 1 } }
pub const MAX_MAX_PAGE_ORDER: u8 = 20;
pub fn min_u8(a: u8, b: u8) -> (r: u8) ensures r == (if a <= b { a } else { b }) { if a <= b { a } else { b } }

pub proof fn lemma_pow2_pos(k: nat) ensures pow2(k) > 0 decreases k { if k > 0 { lemma_pow2_pos((k - 1) as nat); } }
pub proof fn lemma_half(len: int, k: nat)
    requires len >= 0,
    ensures len / pow2(k + 1) == (len / pow2(k)) / 2, pow2(k) > 0,
{
    lemma_pow2_pos(k);
    assert(pow2(k + 1) == pow2(k) * 2);
    vstd::arithmetic::div_mod::lemma_div_denominator(len, pow2(k), 2);
}

impl BuddyAllocator {
    // n_{k+1} = n_k / 2 for the leaf lengths of consecutive orders
    pub proof fn lemma_len_half(&self, k: int)
        requires self.shape(), 0 <= k < self.max_order,
        ensures self.ord(k + 1).len as int == (self.ord(k).len as int) / 2,
    {
        lemma_half(self.len as int, k as nat);
        assert(self.free@[k].leaf().len as int == self.len as int / pow2(k as nat));
        assert(self.free@[k + 1].leaf().len as int == self.len as int / pow2((k + 1) as nat));
    }
    pub open spec fn ord(&self, k: int) -> U64GroupedBitmap { self.free@[k].leaf() }
    pub open spec fn shape(&self) -> bool {
        self.free@.len() == self.max_order as int + 1 && self.max_order <= 20
        && (forall|k: int| 0 <= k <= self.max_order ==> (#[trigger] self.free@[k]).wf())
        && (forall|k: int| 0 <= k <= self.max_order ==> (#[trigger] self.free@[k]).leaf().len as int == self.len as int / pow2(k as nat))
    }
    pub open spec fn same_shape(&self, o: BuddyAllocator) -> bool {
        self.len == o.len && self.max_order == o.max_order && self.free@.len() == o.free@.len()
        && forall|k: int| 0 <= k < self.free@.len() ==> (#[trigger] self.free@[k]).same_shape(o.free@[k])
    }
}
'''
open('bd_t.rs','w').write(base+pre+body+"\nfn main() {}\n}\n")

use vstd::prelude::*;
verus! {

// ---------- spec vocabulary ----------
pub open spec fn lex_lt(a: Seq<u8>, b: Seq<u8>) -> bool
    decreases a.len()
{
    if b.len() == 0 {
        false
    } else if a.len() == 0 {
        true
    } else if a[0] != b[0] {
        a[0] < b[0]
    } else {
        lex_lt(a.subrange(1, a.len() as int), b.subrange(1, b.len() as int))
    }
}

pub open spec fn lex_le(a: Seq<u8>, b: Seq<u8>) -> bool {
    a == b || lex_lt(a, b)
}

// length of the longest common prefix
pub open spec fn lcp(a: Seq<u8>, b: Seq<u8>) -> nat
    decreases a.len()
{
    if a.len() == 0 || b.len() == 0 || a[0] != b[0] {
        0
    } else {
        1 + lcp(a.subrange(1, a.len() as int), b.subrange(1, b.len() as int))
    }
}

// characterisation of lex_lt through the common prefix
pub proof fn lemma_lex_lcp(a: Seq<u8>, b: Seq<u8>)
    ensures
        lcp(a, b) <= a.len(),
        lcp(a, b) <= b.len(),
        forall|i: int| 0 <= i < lcp(a, b) ==> a[i] == b[i],
        lcp(a, b) < a.len() && lcp(a, b) < b.len() ==> a[lcp(a, b) as int] != b[lcp(a, b) as int],
        lex_lt(a, b) <==> (lcp(a, b) < b.len() && (lcp(a, b) == a.len() || a[lcp(a, b) as int] < b[lcp(a, b) as int])),
    decreases a.len()
{
    if a.len() == 0 || b.len() == 0 || a[0] != b[0] {
    } else {
        let a1 = a.subrange(1, a.len() as int);
        let b1 = b.subrange(1, b.len() as int);
        lemma_lex_lcp(a1, b1);
        assert forall|i: int| 0 <= i < lcp(a, b) implies a[i] == b[i] by {
            if i > 0 {
                assert(a1[i - 1] == a[i]);
                assert(b1[i - 1] == b[i]);
            }
        }
        let k = lcp(a1, b1);
        if k < a1.len() {
            assert(a1[k as int] == a[k as int + 1]);
        }
        if k < b1.len() {
            assert(b1[k as int] == b[k as int + 1]);
        }
    }
}

// a sequence that agrees with `b` on its first n bytes has at least that common prefix
pub proof fn lemma_lcp_prefix(s: Seq<u8>, b: Seq<u8>, n: nat)
    requires n <= s.len(), n <= b.len(), forall|i: int| 0 <= i < n ==> s[i] == b[i],
    ensures lcp(s, b) >= n,
    decreases n
{
    if n > 0 {
        let s1 = s.subrange(1, s.len() as int);
        let b1 = b.subrange(1, b.len() as int);
        assert forall|i: int| 0 <= i < n - 1 implies s1[i] == b1[i] by {
            assert(s1[i] == s[i + 1]);
            assert(b1[i] == b[i + 1]);
        }
        lemma_lcp_prefix(s1, b1, (n - 1) as nat);
    }
}

// trusted: stands for `left.iter().zip(right).take_while(|(x, y)| x == y).count()`
#[verifier::external_body]
pub fn common_prefix_len(left: &[u8], right: &[u8]) -> (r: usize)
    ensures r == lcp(left@, right@)
{
    left.iter().zip(right).take_while(|(x, y)| x == y).count()
}

// ---------- real bodies (Cow::Borrowed(e) -> e) ----------
fn bytes_separator<'a>(left: &'a [u8], right: &'a [u8]) -> (s: &'a [u8])
    requires lex_lt(left@, right@),
    ensures lex_le(left@, s@), lex_lt(s@, right@), s@.len() <= left@.len(),
{
    proof { lemma_lex_lcp(left@, right@); }
    let separator_len = common_prefix_len(left, right) + 1;
    if separator_len < left.len() && separator_len < right.len() {
        proof {
            lemma_lex_lcp(left@, right@);
            let s = right@.subrange(0, separator_len as int);
            let k = lcp(left@, right@);
            // s vs right: s is a proper prefix of right
            lemma_lcp_prefix(s, right@, separator_len as nat);
            lemma_lex_lcp(s, right@);
            // left vs s: same first k bytes, then left[k] < right[k] = s[k]
            assert forall|i: int| 0 <= i < k implies left@[i] == s[i] by {}
            lemma_lcp_prefix(left@, s, k);
            lemma_lex_lcp(left@, s);
            assert(s[k as int] == right@[k as int]);
        }
        &right[..separator_len]
    } else {
        left
    }
}

fn round_up_to_char_boundary(utf8: &[u8], mut index: usize) -> (r: usize)
    requires index <= utf8@.len(),
    ensures
        index <= r <= utf8@.len(),
        r == utf8@.len() || utf8@[r as int] & 0b1100_0000 != 0b1000_0000,
        forall|i: int| index <= i < r ==> utf8@[i] & 0b1100_0000 == 0b1000_0000,
{
    let ghost start = index;
    while index < utf8.len() && utf8[index] & 0b1100_0000 == 0b1000_0000
        invariant
            index <= utf8@.len(),
            start <= index,
            forall|i: int| start <= i < index ==> utf8@[i] & 0b1100_0000 == 0b1000_0000,
        decreases utf8@.len() - index,
    {
        index += 1;
    }
    index
}


// ---------- UTF-8, axiomatised by the single fact the code relies on (T7) ----------
pub uninterp spec fn utf8(s: Seq<u8>) -> bool;

pub broadcast axiom fn axiom_utf8_prefix(s: Seq<u8>, n: int)
    requires
        utf8(s),
        0 <= n <= s.len(),
        n == s.len() || s[n] & 0b1100_0000 != 0b1000_0000,
    ensures
        #[trigger] utf8(s.subrange(0, n)),
;

fn str_separator<'a>(left: &'a [u8], right: &'a [u8]) -> (s: &'a [u8])
    requires lex_lt(left@, right@), utf8(left@), utf8(right@),
    ensures lex_le(left@, s@), lex_lt(s@, right@), s@.len() <= left@.len(), utf8(s@),
{
    proof { lemma_lex_lcp(left@, right@); }
    let common_bytes = common_prefix_len(left, right);
    let separator_len = round_up_to_char_boundary(right, common_bytes + 1);
    if separator_len < left.len() && separator_len < right.len() {
        proof {
            let s = right@.subrange(0, separator_len as int);
            let k = lcp(left@, right@);
            lemma_lcp_prefix(s, right@, separator_len as nat);
            lemma_lex_lcp(s, right@);
            assert forall|i: int| 0 <= i < k implies left@[i] == s[i] by {}
            lemma_lcp_prefix(left@, s, k);
            lemma_lex_lcp(left@, s);
            assert(s[k as int] == right@[k as int]);
            axiom_utf8_prefix(right@, separator_len as int);
        }
        &right[..separator_len]
    } else {
        left
    }
}

fn main() {}
}

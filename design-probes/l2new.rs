impl BS {
    pub open spec fn gclause(&self, k: int, q: int) -> bool {
        0 <= k <= self.m && 0 <= q < self.n(k) && (k == self.m || (q == self.n(k) - 1 && self.n(k) % 2 == 1))
    }
    // orders >= lb are in their final greedy state, orders below lb hold nothing free
    pub open spec fn pgreedy(&self, lb: int) -> bool {
        forall|k: int, q: int| #[trigger] self.a(k, q) <==> (lb <= k && self.gclause(k, q))
    }
    // as pgreedy(o + 1), and at order o exactly the blocks lo .. c are free
    pub open spec fn pgreedy_cur(&self, o: int, lo: int, c: int) -> bool {
        forall|k: int, q: int| #[trigger] self.a(k, q) <==> ((o < k && self.gclause(k, q)) || (k == o && lo <= q < c && 0 <= q < self.n(o)))
    }
    pub open spec fn lo_of(&self, o: int) -> int { if o >= self.m { 0 } else { 2 * self.n(o + 1) } }

    pub proof fn lemma_pg_enter(&self, o: int)
        requires self.pgreedy(o + 1), 0 <= o <= self.m,
        ensures self.pgreedy_cur(o, self.lo_of(o), self.lo_of(o)),
    {
        assert forall|k: int, q: int| #[trigger] self.a(k, q) <==> ((o < k && self.gclause(k, q)) || (k == o && self.lo_of(o) <= q < self.lo_of(o) && 0 <= q < self.n(o))) by {
            assert(self.a(k, q) <==> (o + 1 <= k && self.gclause(k, q)));
        }
    }
    pub proof fn lemma_pg_step(s: BS, f: BS, o: int, lo: int, c: int)
        requires
            s.pgreedy_cur(o, lo, c), f.m == s.m, 0 <= o <= s.m, 0 <= lo <= c < s.n(o),
            forall|k: int| 0 <= k <= s.m && k != o ==> #[trigger] f.fs[k] == s.fs[k],
            f.fs[o].leaf().len == s.fs[o].leaf().len, !f.fs[o].leaf().bit_at(c),
            forall|j: int| 0 <= j < s.n(o) && j != c ==> #[trigger] f.fs[o].leaf().bit_at(j) == s.fs[o].leaf().bit_at(j),
        ensures f.pgreedy_cur(o, lo, c + 1),
    {
        assert forall|k: int| 0 <= k <= s.m implies #[trigger] f.n(k) == s.n(k) by {}
        assert forall|k: int, q: int| #[trigger] f.a(k, q) <==> ((o < k && f.gclause(k, q)) || (k == o && lo <= q < c + 1 && 0 <= q < f.n(o))) by {
            assert(s.a(k, q) <==> ((o < k && s.gclause(k, q)) || (k == o && lo <= q < c && 0 <= q < s.n(o))));
            if k == o {
                if q != c && 0 <= q < s.n(o) { assert(f.fs[o].leaf().bit_at(q) == s.fs[o].leaf().bit_at(q)); }
            } else if 0 <= k <= s.m {
                assert(f.fs[k] == s.fs[k]);
            }
        }
    }
    pub proof fn lemma_pg_exit(&self, o: int)
        requires self.pgreedy_cur(o, self.lo_of(o), self.n(o)), self.halving(), 0 <= o <= self.m,
            forall|j: int| 0 <= j <= self.m ==> #[trigger] self.n(j) >= 0,
        ensures self.pgreedy(o),
    {
        if o < self.m { assert(self.n(o + 1) == self.n(o) / 2); }
        assert forall|k: int, q: int| #[trigger] self.a(k, q) <==> (o <= k && self.gclause(k, q)) by {
            assert(self.a(k, q) <==> ((o < k && self.gclause(k, q)) || (k == o && self.lo_of(o) <= q < self.n(o) && 0 <= q < self.n(o))));
        }
    }
    pub proof fn lemma_pg_done(&self)
        requires self.pgreedy(0), 
        ensures self.greedy(),
    {
        assert forall|k: int, q: int| #[trigger] self.a(k, q) <==>
            (0 <= k <= self.m && 0 <= q < self.n(k) && (k == self.m || (q == self.n(k) - 1 && self.n(k) % 2 == 1))) by {
            assert(self.a(k, q) <==> (0 <= k && self.gclause(k, q)));
        }
    }
    // nothing is free when every bitmap is all ones
    pub proof fn lemma_all_full_pg(&self)
        requires forall|k: int, q: int| 0 <= k <= self.m && 0 <= q < self.n(k) ==> #[trigger] self.fs[k].leaf().bit_at(q),
        ensures self.pgreedy(self.m + 1),
    {
        assert forall|k: int, q: int| #[trigger] self.a(k, q) <==> (self.m + 1 <= k && self.gclause(k, q)) by {}
    }
}
pub proof fn lemma_mul_div_exact(c: int, sz: int)
    requires sz > 0, c >= 0,
    ensures (c * sz) / sz == c,
{
    vstd::arithmetic::div_mod::lemma_div_multiples_vanish(c, sz);
}
pub proof fn lemma_fits(c: int, sz: int, n: int)
    requires sz > 0, c >= 0, n >= 0,
    ensures (c * sz + sz <= n) <==> (c + 1 <= n / sz),
{
    lemma_div_block(n, n / sz, sz);
    assert(c * sz + sz == (c + 1) * sz) by (nonlinear_arith);
    if c + 1 <= n / sz {
        assert((c + 1) * sz <= (n / sz) * sz) by (nonlinear_arith) requires c + 1 <= n / sz, sz > 0;
    } else {
        assert((c + 1) * sz >= (n / sz + 1) * sz) by (nonlinear_arith) requires c + 1 >= n / sz + 1, sz > 0;
    }
}

pub proof fn lemma_anc_split(k: int, x: int, o: int, q: int)
    requires k <= o, 0 <= q,
    ensures is_anc(k, x, o + 1, q / 2) == (is_anc(k, x, o, q) || is_anc(k, x, o, sbuddy(q))),
    decreases o - k,
{
    reveal_with_fuel(is_anc, 3);
    if k < o { lemma_anc_split(k + 1, x / 2, o, q); }
}

impl BS {
    // nothing free strictly below (ko, qo)
    pub open spec fn no_free_below(&self, ko: int, qo: int) -> bool {
        forall|j: int, y: int| #[trigger] self.a(j, y) && j < ko ==> !is_anc(j, y, ko, qo)
    }
    // a free block has nothing free below it
    pub proof fn lemma_free_block_no_free_below(&self, ko: int, qo: int)
        requires self.inv1(), self.a(ko, qo),
        ensures self.no_free_below(ko, qo),
    {
        assert forall|j: int, y: int| #[trigger] self.a(j, y) && j < ko implies !is_anc(j, y, ko, qo) by {
            if is_anc(j, y, ko, qo) {
                assert(is_anc(j + 1, y / 2, ko, qo));
                self.lemma_cov_up(j + 1, y / 2, ko, qo);
            }
        }
    }

    // cases (i)/(ii) of free_inner: the block is simply marked free
    pub proof fn lemma_free_case_clear(s: BS, f: BS, ko: int, qo: int)
        requires
            s.inv1(), s.inv2(), f.m == s.m, 0 <= ko <= s.m, 0 <= qo < s.n(ko),
            forall|k: int| 0 <= k <= s.m && k != ko ==> #[trigger] f.fs[k] == s.fs[k],
            f.fs[ko].leaf().len == s.fs[ko].leaf().len,
            s.fs[ko].leaf().bit_at(qo), !f.fs[ko].leaf().bit_at(qo),
            forall|j: int| 0 <= j < s.n(ko) && j != qo ==> #[trigger] f.fs[ko].leaf().bit_at(j) == s.fs[ko].leaf().bit_at(j),
            !s.cov(ko, qo), s.no_free_below(ko, qo),
            ko < s.m && 0 <= sbuddy(qo) < s.n(ko) ==> s.fs[ko].leaf().bit_at(sbuddy(qo)),
        ensures
            f.inv1(), f.inv2(), f.cov(ko, qo),
            forall|k: int, x: int| #[trigger] f.cov(k, x) == (s.cov(k, x) || (0 <= k && is_anc(k, x, ko, qo))),
            forall|j: int, y: int| #[trigger] f.a(j, y) ==> s.a(j, y) || j == ko,
    {
        assert forall|k: int| 0 <= k <= s.m implies #[trigger] f.n(k) == s.n(k) by {}
        assert(f.added(s, ko, qo)) by {
            assert forall|k: int, q: int| !(k == ko && q == qo) implies #[trigger] f.a(k, q) == s.a(k, q) by {
                if k == ko { if 0 <= q < s.n(ko) { assert(f.fs[ko].leaf().bit_at(q) == s.fs[ko].leaf().bit_at(q)); } }
            }
        }
        f.lemma_added_keeps_inv(s, ko, qo);
        assert forall|k: int, x: int| #[trigger] f.cov(k, x) == (s.cov(k, x) || (0 <= k && is_anc(k, x, ko, qo))) by {
            f.lemma_cov_added(s, ko, qo, k, x);
        }
        assert(f.a(ko, qo));
    }

    // case (iii): buddy (ko, b) was free; s1 = s minus the buddy; f = result of freeing the parent in s1
    pub proof fn lemma_free_case_merge_pre(s: BS, s1: BS, ko: int, qo: int)
        requires
            s.inv1(), s.inv2(), s1.m == s.m, 0 <= ko < s.m, 0 <= qo < s.n(ko), 0 <= sbuddy(qo) < s.n(ko),
            forall|k: int| 0 <= k <= s.m && k != ko ==> #[trigger] s1.fs[k] == s.fs[k],
            s1.fs[ko].leaf().len == s.fs[ko].leaf().len,
            s.fs[ko].leaf().bit_at(qo), !s.fs[ko].leaf().bit_at(sbuddy(qo)), s1.fs[ko].leaf().bit_at(sbuddy(qo)),
            forall|j: int| 0 <= j < s.n(ko) && j != sbuddy(qo) ==> #[trigger] s1.fs[ko].leaf().bit_at(j) == s.fs[ko].leaf().bit_at(j),
            !s.cov(ko, qo), s.no_free_below(ko, qo),
        ensures
            s1.inv1(), s1.inv2(), s.added(s1, ko, sbuddy(qo)),
            !s1.cov(ko + 1, qo / 2), s1.no_free_below(ko + 1, qo / 2),
    {
        let b = sbuddy(qo);
        assert forall|k: int| 0 <= k <= s.m implies #[trigger] s1.n(k) == s.n(k) by {}
        assert(s.added(s1, ko, b)) by {
            assert forall|k: int, q: int| !(k == ko && q == b) implies #[trigger] s.a(k, q) == s1.a(k, q) by {
                if k == ko { if 0 <= q < s.n(ko) { assert(s1.fs[ko].leaf().bit_at(q) == s.fs[ko].leaf().bit_at(q)); } }
            }
        }
        assert(s1.fewer(s)) by {
            assert forall|k: int, q: int| #[trigger] s1.a(k, q) implies s.a(k, q) by {
                if !(k == ko && q == b) { assert(s.a(k, q) == s1.a(k, q)); }
            }
        }
        s1.lemma_fewer_keeps_inv(s);
        if s1.cov(ko + 1, qo / 2) { s1.lemma_cov_mono(s, ko + 1, qo / 2); }
        s.lemma_free_block_no_free_below(ko, b);
        assert forall|j: int, y: int| #[trigger] s1.a(j, y) && j < ko + 1 implies !is_anc(j, y, ko + 1, qo / 2) by {
            if is_anc(j, y, ko + 1, qo / 2) {
                lemma_anc_split(j, y, ko, qo);
                assert(s.a(j, y));
                if j == ko {
                    reveal_with_fuel(is_anc, 2);
                    assert(y == qo || y == b);
                }
            }
        }
    }

    pub proof fn lemma_free_case_merge_post(s: BS, s1: BS, f: BS, ko: int, qo: int, r: int)
        requires
            s.added(s1, ko, sbuddy(qo)), 0 <= ko, 0 <= qo,
            forall|j: int, y: int| #[trigger] f.a(j, y) ==> s1.a(j, y) || j == r,
            forall|k: int, x: int| 0 <= k <= ko + 1 ==> #[trigger] f.cov(k, x) == (s1.cov(k, x) || is_anc(k, x, ko + 1, qo / 2)),
        ensures
            forall|k: int, x: int| 0 <= k <= ko ==> #[trigger] f.cov(k, x) == (s.cov(k, x) || is_anc(k, x, ko, qo)),
            f.cov(ko, qo),
            forall|j: int, y: int| #[trigger] f.a(j, y) ==> s.a(j, y) || j == r,
    {
        assert forall|j: int, y: int| #[trigger] f.a(j, y) implies s.a(j, y) || j == r by {
            if j != r { assert(s1.a(j, y)); if !(j == ko && y == sbuddy(qo)) { assert(s.a(j, y) == s1.a(j, y)); } }
        }
        assert forall|k: int, x: int| 0 <= k <= ko implies #[trigger] f.cov(k, x) == (s.cov(k, x) || is_anc(k, x, ko, qo)) by {
            s.lemma_cov_added(s1, ko, sbuddy(qo), k, x);
            lemma_anc_split(k, x, ko, qo);
        }
        reveal_with_fuel(is_anc, 2);
        assert(is_anc(ko, qo, ko, qo));
    }
}

import re
s=open('bd_t.rs').read()
def rep(a,b,cnt=1):
    global s
    assert s.count(a)==cnt,(s.count(a),a)
    s=s.replace(a,b)
# layer 1: debug_assert! lines dropped (they need invariant I1; see DESIGN)
# debug_assert! lines are KEPT in this build (layer 1.5)
# buddy_page bit-vector fact
rep("    page_number ^ 1\n", """    proof {
        assert((page_number ^ 1u32) == (if page_number % 2 == 0 { (page_number + 1) as u32 } else { (page_number - 1) as u32 })) by (bit_vector)
            requires page_number < 0x8000_0000u32;
    }
    page_number ^ 1
""")
rep("fn buddy_page(page_number: u32) -> (r: u32)\n", "fn buddy_page(page_number: u32) -> (r: u32)\n    requires page_number < 0x8000_0000,\n")
# find_free_order loop
rep("        for order in 0..=self.max_order {\n            if page < self.get_order_free(order).len()", """        for order in iter: 0..=self.max_order
            invariant self.shape(),
        {
            if page < self.get_order_free(order).len()""")
# arithmetic hints at the recursion sites
rep("            let upper_page = self.alloc_inner(order + 1)?;\n", """            let ghost mid = *self;
            proof {
                // alloc() returned None: level `order` has no free entry, and nothing changed
                assert(mid.free@[order as int] == old(self).free@[order as int]);
            }
            proof { assert(mid.free@ =~= old(self).free@); }
            let upper_page = self.alloc_inner(order + 1)?;
            proof {
                self.lemma_len_half(order as int);
                assert(self.free@[order as int] == mid.free@[order as int]);
            }
""")
rep("            let upper_page = next_higher_order(page_number);\n            if !self.record_alloc_inner(upper_page, order + 1) {", """            let upper_page = next_higher_order(page_number);
            proof { if order < self.max_order { self.lemma_len_half(order as int); } }
            proof { assert(self.free@ =~= old(self).free@); }
            if !self.record_alloc_inner(upper_page, order + 1) {""")
rep("        if page_number >= allocator.len() {\n            return false;\n        }", """        if page_number >= allocator.len() {
            proof { assert(self.free@ =~= old(self).free@); }
            return false;
        }""")
rep("            allocator.set(buddy);\n            self.free_inner(next_higher_order(page_number), order + 1)", """            allocator.set(buddy);
            proof { self.lemma_len_half(order as int); }
            self.free_inner(next_higher_order(page_number), order + 1)""")
open('bd_t.rs','w').write(s)

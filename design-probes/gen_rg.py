from splice import *
base=open('bt.rs').read()
base=base[:base.index("\nfn main() {}")]
body=open('rg_body.rs').read()
def drop_between(body,a,b):
    i=body.index(a); j=body.index(b); return body[:i]+body[j:]
body=drop_between(body,"    pub fn new(regions: u32, orders: u8) -> Self {","    pub fn find_free(&self, order: u8)")
body=body.replace("    order_trackers: Vec<BtreeBitmap>,","    pub order_trackers: Vec<BtreeBitmap>,")
# resize needs BtreeBitmap::resize (not yet specified): drop for this probe
body=drop_between(body,"    fn resize(&mut self, new_capacity: u32) {","    fn len(&self) -> u32 {")
specs=[
("    pub fn find_free(&self, order: u8)", """        requires self.wf(), (order as int) < self.order_trackers@.len(),
        ensures match r {
            Some(x) => x < self.regions() && self.may_be_free(order as int, x as int)
                && forall|y: int| 0 <= y < x ==> !#[trigger] self.may_be_free(order as int, y),
            None => forall|y: int| 0 <= y < self.regions() ==> !#[trigger] self.may_be_free(order as int, y),
        },"""),
("    pub fn mark_free(&mut self, order: u8, region: u32)", """        requires old(self).wf(), (order as int) < old(self).order_trackers@.len(), region < old(self).regions(),
        ensures final(self).wf(), final(self).regions() == old(self).regions(),
            final(self).order_trackers@.len() == old(self).order_trackers@.len(),
            forall|o: int, r: int| 0 <= o < old(self).order_trackers@.len() && 0 <= r < old(self).regions() ==>
                #[trigger] final(self).may_be_free(o, r) == (old(self).may_be_free(o, r) || (o <= order && r == region)),"""),
("    pub fn mark_full(&mut self, order: u8, region: u32)", """        requires old(self).wf(), (order as int) < old(self).order_trackers@.len(), region < old(self).regions(),
        ensures final(self).wf(), final(self).regions() == old(self).regions(),
            final(self).order_trackers@.len() == old(self).order_trackers@.len(),
            forall|o: int, r: int| 0 <= o < old(self).order_trackers@.len() && 0 <= r < old(self).regions() ==>
                #[trigger] final(self).may_be_free(o, r) == (old(self).may_be_free(o, r) && !(o >= order && r == region)),"""),
("    fn len(&self) -> u32 {\n        self.order_trackers[0]", """        requires self.wf(),
        ensures r == self.regions(),"""),
]
body=splice(body,specs)
pre='''
impl RegionTracker {
    pub open spec fn regions(&self) -> u32 { self.order_trackers@[0].leaf().len }
    pub open spec fn may_be_free(&self, o: int, r: int) -> bool { !self.order_trackers@[o].leaf().bit_at(r) }
    pub open spec fn wf(&self) -> bool {
        1 <= self.order_trackers@.len() <= 32
        && forall|o: int| 0 <= o < self.order_trackers@.len() ==> (#[trigger] self.order_trackers@[o]).wf()
               && self.order_trackers@[o].leaf().len == self.order_trackers@[0].leaf().len
    }
}
'''
open('rg.rs','w').write(base+pre+body+"\nfn main() {}\n}\n")

s=open('bt.rs').read()
def rep(a,b):
    global s
    assert s.count(a)==1,(s.count(a),a)
    s=s.replace(a,b)
# spec additions
rep("    pub open spec fn same_shape(&self, o: BtreeBitmap) -> bool {", """    // every summary pair holds except (p, p+1), which holds everywhere but at entry e,
    // and `full` tells whether child word e is all ones
    pub open spec fn wf_except(&self, p: int, e: int, full: bool) -> bool {
        self.shape_ok() && 0 <= p <= self.h() - 2 && 0 <= e < self.heights@[p].len
        && (forall|q: int| 0 <= q < self.h() - 1 && q != p ==> #[trigger] self.summary(q))
        && (forall|e2: int| 0 <= e2 < self.heights@[p].len && e2 != e ==> (#[trigger] self.heights@[p].bit_at(e2) <==> self.heights@[p + 1].data@[e2] == u64::MAX))
        && (full <==> self.heights@[p + 1].data@[e] == u64::MAX)
    }
    pub open spec fn same_shape(&self, o: BtreeBitmap) -> bool {""")
# update_to_root contract
rep("    fn update_to_root(&mut self, i: u32, mut full: bool) {", """    fn update_to_root(&mut self, i: u32, mut full: bool)
        requires old(self).shape_ok(), i < old(self).leaf().len,
            old(self).h() >= 2 ==> old(self).wf_except(old(self).h() - 2, i as int / 64, full),
        ensures final(self).wf(), final(self).same_shape(*old(self)), final(self).leaf() == old(self).leaf(),
    {""")
rep("""        let mut parent_entry = i / 64;
        loop {""", """        let mut parent_entry = i / 64;
        loop
            invariant_except_break
                self.wf_except(parent_height as int, parent_entry as int, full),
                self.same_shape(*old(self)), self.leaf() == old(self).leaf(),
            ensures
                self.wf(), self.same_shape(*old(self)), self.leaf() == old(self).leaf(),
            decreases parent_height,
        {
            let ghost pre = *self;""")
rep("""            if parent_height == 0 {
                break;
            }
            parent_height -= 1;
            parent_entry /= 64;""", """            proof {
                let p = parent_height as int;
                let e = parent_entry as int;
                assert(self.heights@ == pre.heights@.update(p, self.heights@[p]));
                assert forall|k: int| 0 <= k < self.h() && k != p implies #[trigger] self.heights@[k] == pre.heights@[k] by {}
                // pair (p, p+1) is whole again
                assert(self.summary(p)) by {
                    assert forall|e2: int| 0 <= e2 < self.heights@[p].len implies (#[trigger] self.heights@[p].bit_at(e2) <==> self.heights@[p + 1].data@[e2] == u64::MAX) by {
                        if e2 != e { assert(pre.heights@[p].bit_at(e2) <==> pre.heights@[p + 1].data@[e2] == u64::MAX); }
                    }
                }
                // pairs not touching level p are as before
                assert forall|q: int| 0 <= q < self.h() - 1 && q != p && q + 1 != p implies #[trigger] self.summary(q) by {
                    assert(pre.summary(q));
                }
                if p > 0 {
                    // pair (p-1, p): only word e/64 of level p changed
                    assert forall|e2: int| 0 <= e2 < self.heights@[p - 1].len && e2 != e / 64 implies (#[trigger] self.heights@[p - 1].bit_at(e2) <==> self.heights@[p - 1 + 1].data@[e2] == u64::MAX) by {
                        assert(pre.summary(p - 1));
                        assert(pre.heights@[p - 1].bit_at(e2) <==> pre.heights@[p - 1 + 1].data@[e2] == u64::MAX);
                    }
                    assert(e / 64 < self.heights@[p - 1].len);
                } else {
                    assert forall|q: int| 0 <= q < self.h() - 1 implies #[trigger] self.summary(q) by {}
                }
            }
            if parent_height == 0 {
                break;
            }
            parent_height -= 1;
            parent_entry /= 64;""")
# find_first_unset loop
rep("            let mut height = 0;\n", """            let mut height = 0;
            proof {
                let l0 = self.heights@[0];
                assert(l0.wf());
                // an unset bit cannot be padding
                assert(l0.len > 0);
                assert(l0.cap() >= 64);
                if entry >= l0.len { assert(l0.bit_at(entry as int)); }
            }
""")
rep("        } else {\n            None\n        }", """        } else {
            proof {
                let l0 = self.heights@[0];
                assert(l0.wf());
                self.lemma_full_down(0);
            }
            None
        }""")
rep("    pub open spec fn same_shape(&self, o: BtreeBitmap) -> bool {", """    // if every entry of level p is set, every leaf entry is set
    pub proof fn lemma_full_down(&self, p: int)
        requires self.wf(), 0 <= p < self.h(),
            forall|e: int| 0 <= e < self.heights@[p].len ==> #[trigger] self.heights@[p].bit_at(e),
        ensures forall|y: int| 0 <= y < self.leaf().len ==> #[trigger] self.leaf().bit_at(y),
        decreases self.h() - p,
    {
        if p < self.h() - 1 {
            let c = self.heights@[p + 1];
            assert(self.summary(p));
            assert(self.heights@[p].wf() && c.wf());
            assert forall|y: int| 0 <= y < c.len implies #[trigger] c.bit_at(y) by {
                assert(self.heights@[p].bit_at(y / 64));
                assert(c.data@[y / 64] == u64::MAX);
                lemma_wbit_max(c.data@[y / 64]);
            }
            self.lemma_full_down(p + 1);
        }
    }
    pub open spec fn same_shape(&self, o: BtreeBitmap) -> bool {""")

rep("            while height < self.get_height() - 1 {", """            while height < self.get_height() - 1
                invariant
                    self.wf(), (height as int) < self.h(), entry < self.heights@[height as int].len,
                    !self.heights@[height as int].bit_at(entry as int),
                    forall|y: int| 0 <= y < entry ==> #[trigger] self.heights@[height as int].bit_at(y),
                decreases self.h() - height,
            {
                let ghost ph = height as int;
                let ghost parent = entry as int;
                proof {
                    let c = self.heights@[ph + 1];
                    let w = c.data@[parent];
                    assert(self.summary(ph));
                    assert(self.heights@[ph].bit_at(parent) <==> w == u64::MAX);
                    assert(self.heights@[ph].wf() && c.wf());
                    lemma_wbit_max(w);
                    let j = choose|j: u64| j < 64 && !wbit(w, j);
                    assert(!c.bit_at(parent * 64 + j as int)) by {
                        assert((parent * 64 + j as int) / 64 == parent && (parent * 64 + j as int) % 64 == j as int) by (nonlinear_arith)
                            requires 0 <= parent, 0 <= j < 64;
                    }
                }""")
rep("""                    .first_unset(entry, entry + 64)
                    .unwrap();""", """                    .first_unset(entry, entry + 64)
                    .unwrap();
                proof {
                    let c = self.heights@[ph + 1];
                    assert(height as int == ph + 1);
                    // everything left of the parent's word is set, because the parent bits left of it are set
                    assert forall|y: int| 0 <= y < entry implies #[trigger] c.bit_at(y) by {
                        if y < parent * 64 {
                            assert(self.heights@[ph].bit_at(y / 64));
                            assert(c.data@[y / 64] == u64::MAX);
                            lemma_wbit_max(c.data@[y / 64]);
                        }
                    }
                    // an unset bit cannot be padding
                    if entry >= c.len { assert(c.bit_at(entry as int)); }
                }""")
# set / clear: hints
rep("""        let full = self.get_level_mut(self.get_height() - 1).set(i);
        self.update_to_root(i, full);""", """        let full = self.get_level_mut(self.get_height() - 1).set(i);
        proof { lemma_leaf_changed(*old(self), *self, i as int, full); }
        self.update_to_root(i, full);""")
rep("""        self.get_level_mut(self.get_height() - 1).clear(i);
        self.update_to_root(i, false);""", """        self.get_level_mut(self.get_height() - 1).clear(i);
        proof { lemma_leaf_changed(*old(self), *self, i as int, false); }
        self.update_to_root(i, false);""")
rep("\nfn main() {}", """
// after the leaf word holding bit i changed, the tree is whole except for the pair above the leaf
pub proof fn lemma_leaf_changed(o: BtreeBitmap, n: BtreeBitmap, i: int, full: bool)
    requires
        o.wf(), 0 <= i < o.leaf().len,
        n.heights@ == o.heights@.update(o.h() - 1, n.leaf()),
        n.leaf().wf(), n.leaf().len == o.leaf().len, n.leaf().data@.len() == o.leaf().data@.len(),
        forall|w: int| 0 <= w < o.leaf().data@.len() && w != i / 64 ==> #[trigger] n.leaf().data@[w] == o.leaf().data@[w],
        full <==> n.leaf().data@[i / 64] == u64::MAX,
    ensures
        n.shape_ok(), n.same_shape(o),
        n.h() >= 2 ==> n.wf_except(n.h() - 2, i / 64, full),
{
    let h = o.h();
    assert forall|k: int| 0 <= k < h - 1 implies #[trigger] n.heights@[k] == o.heights@[k] by {}
    assert(n.heights@[h - 1] == n.leaf());
    assert(o.heights@[h - 1] == o.leaf());
    if h >= 2 {
        let p = h - 2;
        assert forall|q: int| 0 <= q < h - 1 && q != p implies #[trigger] n.summary(q) by {
            assert(o.summary(q));
        }
        assert(o.summary(p));
        assert(o.heights@[p].wf() && o.heights@[p + 1].wf());
        assert forall|e2: int| 0 <= e2 < n.heights@[p].len && e2 != i / 64 implies (#[trigger] n.heights@[p].bit_at(e2) <==> n.heights@[p + 1].data@[e2] == u64::MAX) by {
            assert(o.heights@[p].bit_at(e2) <==> o.heights@[p + 1].data@[e2] == u64::MAX);
        }
    }
}

fn main() {}""")
open('bt.rs','w').write(s)

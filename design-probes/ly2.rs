use vstd::prelude::*;
use core::ops::Range;
verus! {

pub open spec fn pow2(e: nat) -> int decreases e { if e == 0 { 1 } else { 2 * pow2((e - 1) as nat) } }

impl RegionLayout {
    pub open spec fn ok(&self) -> bool {
        512 <= self.page_size <= 0x10_0000 && self.num_pages <= 0x10_0000 && self.header_pages <= 0x10_0000
    }
    pub open spec fn spec_len(&self) -> int {
        self.header_pages as int * self.page_size as int + self.page_size as int * self.num_pages as int
    }
}

impl DatabaseLayout {
    pub open spec fn spec_num_regions(&self) -> int {
        self.num_full_regions as int + (if self.trailing_partial_region.is_some() { 1int } else { 0int })
    }
    pub open spec fn ok(&self) -> bool {
        self.full_region_layout.ok() && self.full_region_layout.num_pages > 0
        && 1 <= self.spec_num_regions() <= 0x10_0000
        && (self.trailing_partial_region matches Some(t) ==> t.ok() && t.num_pages > 0
              && t.num_pages <= self.full_region_layout.num_pages
              && t.header_pages == self.full_region_layout.header_pages
              && t.page_size == self.full_region_layout.page_size)
    }
    pub open spec fn spec_base(&self, region: int) -> int {
        self.full_region_layout.page_size as int + region * self.full_region_layout.spec_len()
    }
    pub open spec fn spec_region(&self, region: int) -> RegionLayout {
        if region == self.num_full_regions { self.trailing_partial_region.unwrap() } else { self.full_region_layout }
    }
    pub open spec fn spec_len(&self) -> int {
        self.spec_base(self.spec_num_regions() - 1) + self.spec_region(self.spec_num_regions() - 1).spec_len()
    }

    // C20-A1: every in-range page of every region ends inside the layout
    pub proof fn lemma_page_in_bounds(&self, region: int, index: int, order: nat)
        requires
            self.ok(), 0 <= region < self.spec_num_regions(), 0 <= index, order <= 20,
            (index + 1) * pow2(order) <= self.spec_region(region).num_pages,
        ensures
            self.spec_base(region)
              + self.full_region_layout.header_pages as int * self.full_region_layout.page_size as int
              + index * (pow2(order) * self.full_region_layout.page_size as int)
              + pow2(order) * self.full_region_layout.page_size as int
              <= self.spec_len(),
            self.spec_len() <= 0x4000_0000_0000_0000,
    {
        let ps = self.full_region_layout.page_size as int;
        let hp = self.full_region_layout.header_pages as int;
        let n = self.spec_region(region).num_pages as int;
        let last = self.spec_num_regions() - 1;
        let flen = self.full_region_layout.spec_len();
        assert(self.spec_region(region).header_pages == hp && self.spec_region(region).page_size == ps);
        // page end <= end of its own region
        assert(index * (pow2(order) * ps) + pow2(order) * ps == ((index + 1) * pow2(order)) * ps) by (nonlinear_arith);
        assert(((index + 1) * pow2(order)) * ps <= n * ps) by (nonlinear_arith)
            requires (index + 1) * pow2(order) <= n, ps >= 0;
        // end of region `region` <= end of last region
        assert(self.spec_region(region).spec_len() == hp * ps + ps * n);
        assert(self.spec_region(region).spec_len() <= flen) by (nonlinear_arith)
            requires self.spec_region(region).spec_len() == hp * ps + ps * n, flen == hp * ps + ps * self.full_region_layout.num_pages as int,
                     n <= self.full_region_layout.num_pages as int, ps >= 0;
        if region < last {
            assert(region * flen + flen <= last * flen) by (nonlinear_arith)
                requires region + 1 <= last, flen >= 0;
        }
        assert(flen <= 0x20_0000 * 0x10_0000) by (nonlinear_arith)
            requires flen == hp * ps + ps * self.full_region_layout.num_pages as int, 0 <= hp <= 0x10_0000, 0 <= ps <= 0x10_0000, 0 <= self.full_region_layout.num_pages as int <= 0x10_0000;
        let nl = self.spec_region(last).num_pages as int;
        assert(self.spec_region(last).header_pages == hp && self.spec_region(last).page_size == ps);
        assert(hp * ps + ps * nl <= flen) by (nonlinear_arith)
            requires flen == hp * ps + ps * self.full_region_layout.num_pages as int,
                     nl <= self.full_region_layout.num_pages as int, ps >= 0;
        assert(last * flen <= 0x10_0000 * (0x20_0000 * 0x10_0000)) by (nonlinear_arith)
            requires 0 <= last <= 0x10_0000, 0 <= flen <= 0x20_0000 * 0x10_0000;
    }
}

fn round_up_to_multiple_of(value: u64, multiple: u64) -> (r: u64)
    requires multiple > 0, value as int + multiple as int <= u64::MAX,
    ensures r >= value, r as int % (multiple as int) == 0, (r as int) < value as int + multiple as int,
    {
    if value.is_multiple_of(multiple) {
        value
    } else {
        value + multiple - value % multiple
    }
}

// Regions are laid out starting with the allocator state header, followed by the pages aligned
// to the next page
#[derive(Clone, Copy, Debug, Eq, PartialEq)]
pub struct RegionLayout {
    pub num_pages: u32,
    pub header_pages: u32,
    pub page_size: u32,
}

impl RegionLayout {
    pub fn new(num_pages: u32, header_pages: u32, page_size: u32) -> (r: Self)
        requires num_pages > 0,
        ensures r.num_pages == num_pages, r.header_pages == header_pages, r.page_size == page_size,
    {
        assert!(num_pages > 0);
        Self {
            num_pages,
            header_pages,
            page_size,
        }
    }

    pub fn calculate(
        desired_usable_bytes: u64,
        page_capacity: u32,
        region_header_pages: u32,
        page_size: u32,
    ) -> RegionLayout {
        assert!(desired_usable_bytes <= u64::from(page_capacity) * u64::from(page_size));
        let num_pages =
            round_up_to_multiple_of(desired_usable_bytes, page_size.into()) / u64::from(page_size);

        Self {
            num_pages: num_pages.try_into().unwrap(),
            header_pages: region_header_pages,
            page_size,
        }
    }

    pub fn data_section(&self) -> (r: Range<u64>)
        requires self.ok(),
        ensures r.start == self.header_pages as int * self.page_size as int, r.end == self.spec_len(),
    {
        let header_bytes = u64::from(self.header_pages) * u64::from(self.page_size);
        header_bytes..(header_bytes + self.usable_bytes())
    }

    pub fn get_header_pages(&self) -> (r: u32)
        ensures r == self.header_pages,
    {
        self.header_pages
    }

    pub fn num_pages(&self) -> (r: u32)
        ensures r == self.num_pages,
    {
        self.num_pages
    }

    pub fn page_size(&self) -> (r: u32)
        ensures r == self.page_size,
    {
        self.page_size
    }

    pub fn len(&self) -> (r: u64)
        requires self.ok(),
        ensures r == self.spec_len(),
    {
        u64::from(self.header_pages) * u64::from(self.page_size) + self.usable_bytes()
    }

    pub fn usable_bytes(&self) -> (r: u64)
        requires self.ok(),
        ensures r == self.page_size as int * self.num_pages as int,
    {
        u64::from(self.page_size) * u64::from(self.num_pages)
    }
}

#[derive(Clone, Copy, Debug)]
pub struct DatabaseLayout {
    pub full_region_layout: RegionLayout,
    pub num_full_regions: u32,
    pub trailing_partial_region: Option<RegionLayout>,
}

impl DatabaseLayout {
    pub fn new(
        full_regions: u32,
        full_region: RegionLayout,
        trailing_region: Option<RegionLayout>,
    ) -> Self {
        Self {
            full_region_layout: full_region,
            num_full_regions: full_regions,
            trailing_partial_region: trailing_region,
        }
    }

    pub fn reduce_last_region(&mut self, pages: u32) {
        if let Some(ref mut trailing) = self.trailing_partial_region {
            assert!(pages <= trailing.num_pages);
            trailing.num_pages -= pages;
            if trailing.num_pages == 0 {
                self.trailing_partial_region = None;
            }
        } else {
            self.num_full_regions -= 1;
            let full_layout = self.full_region_layout;
            if full_layout.num_pages > pages {
                self.trailing_partial_region = Some(RegionLayout::new(
                    full_layout.num_pages - pages,
                    full_layout.header_pages,
                    full_layout.page_size,
                ));
            }
        }
    }

    pub fn recalculate(
        file_len: u64,
        region_header_pages_u32: u32,
        region_max_data_pages_u32: u32,
        page_size_u32: u32,
    ) -> Self {
        let page_size = u64::from(page_size_u32);
        let region_header_pages = u64::from(region_header_pages_u32);
        let region_max_data_pages = u64::from(region_max_data_pages_u32);
        // Super-header
        let mut remaining = file_len - page_size;
        let full_region_size = (region_header_pages + region_max_data_pages) * page_size;
        let full_regions = remaining / full_region_size;
        remaining -= full_regions * full_region_size;
        let trailing = if remaining >= (region_header_pages + 1) * page_size {
            remaining -= region_header_pages * page_size;
            let remaining: u32 = remaining.try_into().unwrap();
            let data_pages = remaining / page_size_u32;
            assert!(data_pages < region_max_data_pages_u32);
            Some(RegionLayout::new(
                data_pages,
                region_header_pages_u32,
                page_size_u32,
            ))
        } else {
            None
        };
        let full_layout = RegionLayout::new(
            region_max_data_pages_u32,
            region_header_pages_u32,
            page_size_u32,
        );

        Self {
            full_region_layout: full_layout,
            num_full_regions: full_regions.try_into().unwrap(),
            trailing_partial_region: trailing,
        }
    }

    pub fn calculate(
        desired_usable_bytes: u64,
        page_capacity: u32,
        region_header_pages: u32,
        page_size: u32,
    ) -> Self {
        let full_region_layout = RegionLayout::new(page_capacity, region_header_pages, page_size);
        if desired_usable_bytes <= full_region_layout.usable_bytes() {
            // Single region layout
            let region_layout = RegionLayout::calculate(
                desired_usable_bytes,
                page_capacity,
                region_header_pages,
                page_size,
            );
            DatabaseLayout {
                full_region_layout,
                num_full_regions: 0,
                trailing_partial_region: Some(region_layout),
            }
        } else {
            // Multi region layout
            let full_regions = desired_usable_bytes / full_region_layout.usable_bytes();
            let remaining_desired =
                desired_usable_bytes - full_regions * full_region_layout.usable_bytes();
            assert!(full_regions > 0);
            let trailing_region = if remaining_desired > 0 {
                Some(RegionLayout::calculate(
                    remaining_desired,
                    page_capacity,
                    region_header_pages,
                    page_size,
                ))
            } else {
                None
            };
            if let Some(ref region) = trailing_region {
                // All regions must have the same header size
                assert!((region.header_pages) == (full_region_layout.header_pages));
            }
            DatabaseLayout {
                full_region_layout,
                num_full_regions: full_regions.try_into().unwrap(),
                trailing_partial_region: trailing_region,
            }
        }
    }

    pub fn full_region_layout(&self) -> (r: &RegionLayout)
        ensures *r == self.full_region_layout,
    {
        &self.full_region_layout
    }

    pub fn trailing_region_layout(&self) -> Option<&RegionLayout> {
        self.trailing_partial_region.as_ref()
    }

    pub fn num_full_regions(&self) -> (r: u32)
        ensures r == self.num_full_regions,
    {
        self.num_full_regions
    }

    pub fn num_regions(&self) -> (r: u32)
        requires self.ok(),
        ensures r == self.spec_num_regions(),
    {
        if self.trailing_partial_region.is_some() {
            self.num_full_regions + 1
        } else {
            self.num_full_regions
        }
    }

    pub fn len(&self) -> (r: u64)
        requires self.ok(),
        ensures r == self.spec_len(),
    {
        let last = self.num_regions() - 1;
        self.region_base_address(last) + self.region_layout(last).len()
    }

    pub fn usable_bytes(&self) -> u64 {
        let trailing = self
            .trailing_partial_region
            .as_ref()
            .map(RegionLayout::usable_bytes)
            .unwrap_or_default();
        u64::from(self.num_full_regions) * self.full_region_layout.usable_bytes() + trailing
    }

    pub fn region_base_address(&self, region: u32) -> (r: u64)
        requires self.ok(), region < self.spec_num_regions(),
        ensures r == self.spec_base(region as int),
    {
        assert!(region < self.num_regions());
        u64::from(self.full_region_layout.page_size())
            + u64::from(region) * self.full_region_layout.len()
    }

    pub fn region_layout(&self, region: u32) -> (r: RegionLayout)
        requires self.ok(), region < self.spec_num_regions(),
        ensures r == self.spec_region(region as int),
    {
        assert!(region < self.num_regions());
        if region == self.num_full_regions {
            self.trailing_partial_region.unwrap()
        } else {
            self.full_region_layout
        }
    }
}



pub struct PageNumber { pub region: u32, pub page_index: u32, pub page_order: u8 }
proof fn lemma_pow2_shift(o: u8)
    requires o <= 20,
    ensures (1u64 << o) as int == pow2(o as nat), 1 <= pow2(o as nat) <= 0x10_0000,
{
    reveal_with_fuel(pow2, 21);
    assert((1u64 << o) == if o == 0 { 1u64 } else if o == 1 { 2 } else if o == 2 { 4 } else if o == 3 { 8 } else if o == 4 { 16 }
        else if o == 5 { 32 } else if o == 6 { 64 } else if o == 7 { 128 } else if o == 8 { 256 } else if o == 9 { 512 }
        else if o == 10 { 1024 } else if o == 11 { 2048 } else if o == 12 { 4096 } else if o == 13 { 8192 } else if o == 14 { 16384 }
        else if o == 15 { 32768 } else if o == 16 { 65536 } else if o == 17 { 131072 } else if o == 18 { 262144 }
        else if o == 19 { 524288 } else { 1048576 }) by (bit_vector) requires o <= 20;
}
impl PageNumber {
    pub fn address_range(
        &self,
        data_section_offset: u64,
        region_size: u64,
        region_pages_start: u64,
        page_size: u32,
    ) -> (r: Range<u64>)
        requires self.page_order <= 20, self.page_index <= 0x10_0000, self.region <= 0x10_0000, page_size <= 0x10_0000,
            data_section_offset <= 0x10_0000, region_size <= 0x200_0000_0000, region_pages_start <= 0x100_0000_0000,
            region_pages_start + (self.page_index as int) * (pow2(self.page_order as nat) * page_size as int) < region_size,
        ensures
            r.start == data_section_offset + self.region as int * region_size as int + region_pages_start
                       + self.page_index as int * (pow2(self.page_order as nat) * page_size as int),
            r.end == r.start + pow2(self.page_order as nat) * page_size as int,
    {
        proof {
            lemma_pow2_shift(self.page_order);
            let ps = pow2(self.page_order as nat) * page_size as int;
            assert(0 <= ps <= 0x10_0000 * 0x10_0000) by (nonlinear_arith)
                requires 0 < pow2(self.page_order as nat) <= 0x10_0000, 0 <= page_size as int <= 0x10_0000, ps == pow2(self.page_order as nat) * page_size as int;
            assert(0 <= self.page_index as int * ps <= 0x10_0000 * (0x10_0000 * 0x10_0000)) by (nonlinear_arith)
                requires 0 <= self.page_index as int <= 0x10_0000, 0 <= ps <= 0x10_0000 * 0x10_0000;
            assert(0 <= self.region as int * region_size as int <= 0x10_0000 * 0x200_0000_0000) by (nonlinear_arith)
                requires 0 <= self.region as int <= 0x10_0000, 0 <= region_size as int <= 0x200_0000_0000;
        }
        let regional_start =
            region_pages_start + u64::from(self.page_index) * self.page_size_bytes(page_size);
        debug_assert!(regional_start < region_size);
        let region_base = u64::from(self.region) * region_size;
        let start = data_section_offset + region_base + regional_start;
        let end = start + self.page_size_bytes(page_size);
        start..end
    }

    pub fn page_size_bytes(&self, page_size: u32) -> (r: u64)
        requires self.page_order <= 20, page_size <= 0x10_0000,
        ensures r == pow2(self.page_order as nat) * page_size as int,
    {
        proof {
            lemma_pow2_shift(self.page_order);
            assert(pow2(self.page_order as nat) * page_size as int <= 0x10_0000 * 0x10_0000) by (nonlinear_arith)
                requires 0 < pow2(self.page_order as nat) <= 0x10_0000, 0 <= page_size as int <= 0x10_0000;
        }
        let pages = 1u64 << self.page_order;
        pages * u64::from(page_size)
    }
}

fn main() {}
}

s=open('bd.rs').read()
h=open('l2bs.rs').read()+open('l2cases.rs').read()
s=s.replace("\nfn main() {}", "\n"+h+"\nfn main() {}")
def rep(a,b):
    global s
    assert s.count(a)==1,(s.count(a),a[:80])
    s=s.replace(a,b)
rep("""    pub fn alloc_inner(&mut self, order: u8) -> (r: Option<u32>)
        requires old(self).shape(),
        ensures final(self).shape(), final(self).same_shape(*old(self)),""","""    pub fn alloc_inner(&mut self, order: u8) -> (r: Option<u32>)
        requires old(self).wf2(),
        ensures final(self).wf2(), final(self).same_shape(*old(self)),
            r matches Some(p) ==> old(self).st().cov(order as int, p as int) && !final(self).st().cov(order as int, p as int),
            r matches Some(p) ==> forall|k: int, y: int| 0 <= k <= order ==> #[trigger] final(self).st().cov(k, y)
                    == (old(self).st().cov(k, y) && !is_anc(k, y, order as int, p as int)),
            r matches Some(p) ==> forall|j: int, y: int| #[trigger] final(self).st().a(j, y) ==> old(self).st().cov(j, y),
            r is None ==> forall|k: int, q: int| order <= k ==> !#[trigger] old(self).st().a(k, q),""")
rep("""        if let Some(x) = allocator.alloc() {
            Some(x)""","""        if let Some(x) = allocator.alloc() {
            proof { BS::lemma_alloc_case_a(old(self).st(), self.st(), order as int, x as int); }
            Some(x)""")
rep("""            proof { assert(mid.free@ =~= old(self).free@); }
            let upper_page = self.alloc_inner(order + 1)?;""","""            proof {
                assert(mid.free@ =~= old(self).free@);
                assert(mid.st() == old(self).st());
                // level `order` is entirely allocated, so nothing at this level is free
                assert forall|q: int| !#[trigger] mid.st().a(order as int, q) by {}
            }
            let upper_page = self.alloc_inner(order + 1)?;
            let ghost s1 = *self;""")
rep("""            allocator.clear(free2);

            Some(free1)""","""            allocator.clear(free2);
            proof { BS::lemma_alloc_case_b(mid.st(), s1.st(), self.st(), order as int, upper_page as int); }

            Some(free1)""")
open('bd2.rs','w').write(s)

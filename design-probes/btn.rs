use vstd::prelude::*;
verus! {
#[verifier::external_body]
pub fn xxh3_checksum(data: &[u8]) -> u128 { unimplemented!() }
#[verifier::external_body]
pub fn vec_reverse<T>(v: &mut Vec<T>) ensures final(v)@ == old(v)@.reverse() { v.reverse() }
#[verifier::external_body]
pub fn div_ceil_u32(x: u32, y: u32) -> (r: u32) requires y > 0 ensures r as int == (x as int + y as int - 1) / (y as int) { x.div_ceil(y) }

pub open spec fn wbit(w: u64, j: u64) -> bool { (w >> j) & 1u64 == 1u64 }

impl U64GroupedBitmap {
    pub open spec fn cap(&self) -> int { self.data@.len() as int * 64 }
    pub open spec fn bit_at(&self, i: int) -> bool { wbit(self.data@[i / 64], (i % 64) as u64) }
    pub open spec fn wf(&self) -> bool {
        self.len as int <= self.cap()
        && forall|i: int| self.len <= i < self.cap() ==> #[trigger] self.bit_at(i)
    }
}

pub proof fn lemma_wbit_or(w: u64, b: u64, j: u64)
    requires b < 64, j < 64,
    ensures wbit(w | (1u64 << b), j) == (j == b || wbit(w, j)),
{
    assert(((w | (1u64 << b)) >> j) & 1u64 == 1u64 <==> (j == b || (w >> j) & 1u64 == 1u64)) by (bit_vector)
        requires b < 64, j < 64;
}
pub proof fn lemma_wbit_andnot(w: u64, b: u64, j: u64)
    requires b < 64, j < 64,
    ensures wbit(w & !(1u64 << b), j) == (j != b && wbit(w, j)),
{
    assert(((w & !(1u64 << b)) >> j) & 1u64 == 1u64 <==> (j != b && (w >> j) & 1u64 == 1u64)) by (bit_vector)
        requires b < 64, j < 64;
}
pub proof fn lemma_wbit_mask(w: u64, b: u64)
    requires b < 64,
    ensures (w & (1u64 << b) != 0) == wbit(w, b),
{
    assert((w & (1u64 << b) != 0) <==> ((w >> b) & 1u64 == 1u64)) by (bit_vector) requires b < 64;
}
pub proof fn lemma_not_bit(w: u64, j: u64)
    requires j < 64,
    ensures ((!w >> j) & 1u64 == 1u64) <==> !wbit(w, j), ((!w >> j) & 1u64 == 0u64) <==> wbit(w, j),
{
    assert((((!w) >> j) & 1u64 == 1u64) <==> !((w >> j) & 1u64 == 1u64)) by (bit_vector) requires j < 64;
    assert((((!w) >> j) & 1u64 == 0u64) <==> ((w >> j) & 1u64 == 1u64)) by (bit_vector) requires j < 64;
}

// what `trailing_ones` means, in terms of wbit
pub proof fn lemma_trailing_ones(w: u64)
    ensures
        vstd::std_specs::bits::u64_trailing_ones(w) <= 64,
        vstd::std_specs::bits::u64_trailing_ones(w) == 64 <==> w == u64::MAX,
        vstd::std_specs::bits::u64_trailing_ones(w) < 64 ==> !wbit(w, vstd::std_specs::bits::u64_trailing_ones(w) as u64),
        forall|j: u64| j < vstd::std_specs::bits::u64_trailing_ones(w) ==> #[trigger] wbit(w, j),
{
    vstd::std_specs::bits::axiom_u64_trailing_zeros(!w);
    let tz = vstd::std_specs::bits::u64_trailing_zeros(!w);
    assert(!w == 0 <==> w == 0xffff_ffff_ffff_ffffu64) by (bit_vector);
    if tz < 64 {
        lemma_not_bit(w, tz as u64);
    }
    assert forall|j: u64| j < tz implies #[trigger] wbit(w, j) by {
        assert(((!w >> j) & 1u64) == 0u64);
        lemma_not_bit(w, j);
    }
}

pub proof fn lemma_wbit_max(w: u64)
    ensures (w == u64::MAX) <==> (forall|j: u64| j < 64 ==> #[trigger] wbit(w, j)),
{
    lemma_trailing_ones(w);
    if w == u64::MAX {
        assert forall|j: u64| j < 64 implies #[trigger] wbit(w, j) by {
            assert(((0xffff_ffff_ffff_ffffu64 >> j) & 1u64) == 1u64) by (bit_vector) requires j < 64;
        }
    } else {
        let t = vstd::std_specs::bits::u64_trailing_ones(w) as u64;
        assert(!wbit(w, t));
    }
}

// Returns a u64 with bits `lo..hi` set, where `0 <= lo < hi <= 64`.
fn bits_in_range(lo: u32, hi: u32) -> (r: u64)
    requires lo < hi, hi <= 64,
    ensures forall|j: u64| j < 64 ==> #[trigger] wbit(r, j) == (lo <= j < hi),
    {
    debug_assert!(lo < hi && hi <= 64);
    // Both shifts are well-defined: `lo < 64` and `64 - hi < 64`.
    let bits_at_or_above_lo = u64::MAX << lo;
    let bits_below_hi = u64::MAX >> (64 - hi);
    proof {
        let lo64 = lo as u64; let sh = (64 - hi) as u64;
        assert forall|j: u64| j < 64 implies #[trigger] wbit(bits_at_or_above_lo & bits_below_hi, j) == (lo <= j < hi) by {
            assert(((((0xffff_ffff_ffff_ffffu64 << lo64) & (0xffff_ffff_ffff_ffffu64 >> sh)) >> j) & 1u64 == 1u64) <==> (lo64 <= j && j < 64 - sh)) by (bit_vector)
                requires lo64 < 64, sh < 64, j < 64;
        }
    }
    bits_at_or_above_lo & bits_below_hi
}

// A bitmap which groups consecutive groups of 64bits together
pub struct U64GroupedBitmap {
    pub len: u32,
    pub data: Vec<u64>,
}

impl U64GroupedBitmap {
    fn required_words(elements: u32) -> (r: usize)
        ensures r as int == (elements as int + 63) / 64,
    {
        let words = div_ceil_u32(elements, 64);
        words as usize
    }

    pub fn new_full(len: u32, capacity: u32) -> (r: Self)
        requires len <= capacity,
        ensures r.wf(), r.len == len, r.data@.len() == (capacity as int + 63) / 64,
            forall|i: int| 0 <= i < r.cap() ==> #[trigger] r.bit_at(i),
    {
        let data = vec![u64::MAX; Self::required_words(capacity)];
        proof {
            lemma_wbit_max(u64::MAX);
            assert forall|i: int| 0 <= i < data@.len() * 64 implies #[trigger] wbit(data@[i / 64], (i % 64) as u64) by {
                assert(data@[i / 64] == u64::MAX);
            }
        }
        Self { len, data }
    }

    #[verifier::external_body]
    pub fn xxh3_hash(&self) -> u128 {
        if self.len == 0 {
            return 0;
        }
        let mut bytes = vec![];
        bytes.extend(self.len.to_le_bytes());
        // Hash all the whole words
        for x in &self.data[0..Self::required_words(self.len) - 1] {
            bytes.extend(x.to_le_bytes());
        }
        let (index, bit) = Self::data_index_of(self.len - 1);
        // Select the bit and all lower ones
        let mask = ((1 << bit) - 1) | (1 << bit);
        let group = self.data[index];
        let group = group & mask;
        bytes.extend(group.to_le_bytes());

        xxh3_checksum(&bytes)
    }

    // Format:
    // 4 bytes: number of elements
    // n bytes: serialized groups
    #[verifier::external_body]
    pub fn to_vec(&self) -> Vec<u8> {
        let words = Self::required_words(self.len);
        let mut result = Vec::with_capacity(4 + words * 8);
        result.extend_from_slice(&self.len.to_le_bytes());
        for x in &self.data[..words] {
            result.extend_from_slice(&x.to_le_bytes());
        }
        result
    }

    #[verifier::external_body]
    pub fn from_bytes(serialized: &[u8]) -> Self {
        assert!((0) == ((serialized.len() - 4) % 8));
        let len = u32::from_le_bytes(serialized[..4].try_into().unwrap());
        let words = (serialized.len() - 4) / 8;
        let mut data = Vec::with_capacity(words);
        for i in 0..words {
            let start = 4 + i * 8;
            let value = u64::from_le_bytes(
                serialized[start..(start + 8)]
                    .try_into()
                    .unwrap(),
            );
            data.push(value);
        }

        Self { len, data }
    }

    fn data_index_of(bit: u32) -> (r: (usize, usize))
        ensures r.0 == bit as int / 64, r.1 == bit as int % 64,
    {
        ((bit as usize) / 64, (bit as usize) % 64)
    }

    fn select_mask(bit: usize) -> (r: u64)
        requires bit < 64,
        ensures r == 1u64 << (bit as u64),
    {
        1u64 << (bit as u64)
    }

    #[verifier::external_body]
    fn count_unset(&self) -> u32 {
        self.data.iter().map(|x| x.count_zeros()).sum()
    }

    #[verifier::external_body]
    fn any_unset(&self) -> bool {
        self.data.iter().any(|x| x.count_zeros() > 0)
    }

    fn first_unset(&self, start_bit: u32, end_bit: u32) -> (r: Option<u32>)
        requires self.wf(), end_bit as int == (start_bit - start_bit % 64) + 64,
            self.len == 0 || (start_bit as int) < self.cap(),
        ensures
            match r {
                Some(x) => self.len > 0 && start_bit <= x < end_bit && !self.bit_at(x as int)
                    && forall|y: int| start_bit <= y < x ==> #[trigger] self.bit_at(y),
                None => self.len == 0 || forall|y: int| start_bit <= y < end_bit ==> #[trigger] self.bit_at(y),
            },
    {
        assert!((end_bit) == ((start_bit - start_bit % 64) + 64));
        if self.len == 0 {
            return None;
        }

        let (index, bit) = Self::data_index_of(start_bit);
        proof {
            assert((1u64 << (bit as u64)) >= 1) by (bit_vector) requires (bit as u64) < 64;
        }
        let mask = (1 << bit) - 1;
        let group = self.data[index];
        let group = group | mask;
        proof {
            let g0 = self.data@[index as int];
            let b = bit as u64;
            lemma_trailing_ones(group);
            // bits below `bit` are forced to 1 by the mask; the others are those of the word
            assert forall|j: u64| j < 64 implies #[trigger] wbit(group, j) == (j < b || wbit(g0, j)) by {
                assert((((g0 | (((1u64 << b) - 1) as u64)) >> j) & 1u64 == 1u64) <==> (j < b || ((g0 >> j) & 1u64 == 1u64))) by (bit_vector)
                    requires b < 64, j < 64;
            }
            let t = vstd::std_specs::bits::u64_trailing_ones(group);
            if t < 64 {
                assert(!wbit(group, t as u64));
                assert(t as u64 >= b);
            }
            assert forall|y: int| start_bit <= y < start_bit - b + t && y < end_bit implies #[trigger] self.bit_at(y) by {
                assert(y / 64 == index as int);
                assert(wbit(group, (y % 64) as u64));
            }
        }
        match group.trailing_ones() {
            64 => None,
            x => Some(start_bit + x - u32::try_from(bit).unwrap()),
        }
    }

    pub fn len(&self) -> (r: u32)
        ensures r == self.len,
    {
        self.len
    }

    pub fn resize(&mut self, new_len: u32, full: bool)
        requires old(self).wf(), full,
            new_len < old(self).len ==> forall|i: int| new_len <= i < old(self).len ==> #[trigger] old(self).bit_at(i),
        ensures final(self).wf(), final(self).len == new_len, final(self).data@.len() >= old(self).data@.len(),
            forall|i: int| 0 <= i < old(self).len && i < new_len ==> #[trigger] final(self).bit_at(i) == old(self).bit_at(i),
            forall|i: int| old(self).len <= i < final(self).cap() ==> #[trigger] final(self).bit_at(i),
            forall|w: int| 0 <= w < old(self).data@.len() && (w + 1) * 64 <= old(self).len ==> #[trigger] final(self).data@[w] == old(self).data@[w],
    {
        if self.data.len() < Self::required_words(new_len) {
            let default_value = if full { u64::MAX } else { 0 };
            self.data
                .resize(Self::required_words(new_len), default_value);
        }
        let old_len = self.len;
        self.len = new_len;
        proof {
            lemma_wbit_max(u64::MAX);
            assert forall|i: int| old(self).len <= i < self.cap() implies #[trigger] self.bit_at(i) by {
                if i < old(self).cap() {
                    assert(self.data@[i / 64] == old(self).data@[i / 64]);
                    assert(old(self).bit_at(i));
                } else {
                    assert(self.data@[i / 64] == u64::MAX);
                }
            }
            assert forall|i: int| 0 <= i < old(self).cap() implies #[trigger] self.bit_at(i) == old(self).bit_at(i) by {
                assert(self.data@[i / 64] == old(self).data@[i / 64]);
            }
        }
        if old_len >= new_len {
            return;
        }
        // Apply `full` to bits [old_len, new_len) one word at a time. For each
        // word, build a mask of just the bits in that range that fall within
        // the word, then OR it in (full=true) or AND its complement (full=false).
        let start_word = old_len / 64;
        let end_word = (new_len - 1) / 64;
        for word in iter: start_word..=end_word
            invariant
                self.len == new_len, old_len == old(self).len, old_len < new_len, full,
                start_word == old_len / 64, end_word == (new_len - 1) / 64,
                self.data@.len() >= old(self).data@.len(), self.cap() >= new_len,
                forall|i: int| 0 <= i < old_len ==> #[trigger] self.bit_at(i) == old(self).bit_at(i),
                forall|i: int| old_len <= i < self.cap() ==> #[trigger] self.bit_at(i),
                forall|w: int| 0 <= w < old(self).data@.len() && (w + 1) * 64 <= old_len ==> #[trigger] self.data@[w] == old(self).data@[w],
        {
            let word_first_bit = word * 64;
            let lo = old_len.saturating_sub(word_first_bit);
            let hi = (new_len - word_first_bit).min(64);
            let mask = bits_in_range(lo, hi);
            let ghost pre = *self;
            let slot = &mut self.data[word as usize];
            if full {
                *slot |= mask;
            } else {
                *slot &= !mask;
            }
            proof {
                let w0 = pre.data@[word as int];
                assert forall|j: u64| j < 64 implies #[trigger] wbit(w0 | mask, j) == (wbit(w0, j) || wbit(mask, j)) by {
                    assert((((w0 | mask) >> j) & 1u64 == 1u64) <==> (((w0 >> j) & 1u64 == 1u64) || ((mask >> j) & 1u64 == 1u64))) by (bit_vector)
                        requires j < 64;
                }
                assert forall|i: int| 0 <= i < old_len implies #[trigger] self.bit_at(i) == old(self).bit_at(i) by {
                    assert(pre.bit_at(i) == old(self).bit_at(i));
                    if i / 64 == word as int {
                        assert(!wbit(mask, (i % 64) as u64));
                    }
                }
                assert forall|i: int| old_len <= i < self.cap() implies #[trigger] self.bit_at(i) by {
                    assert(pre.bit_at(i));
                }
            }
        }
    }

    pub fn get(&self, bit: u32) -> (r: bool)
        requires self.wf(), bit < self.len,
        ensures r == self.bit_at(bit as int),
    {
        assert!(bit < self.len);
        let (index, bit_index) = Self::data_index_of(bit);
        let group = self.data[index];
        proof { lemma_wbit_mask(group, bit_index as u64); }
        group & U64GroupedBitmap::select_mask(bit_index) != 0
    }

    // Returns true iff the bit's group is all set
    pub fn set(&mut self, bit: u32) -> (r: bool)
        requires old(self).wf(), bit < old(self).len,
        ensures final(self).wf(), final(self).len == old(self).len, final(self).data@.len() == old(self).data@.len(),
            final(self).bit_at(bit as int),
            forall|j: int| 0 <= j < old(self).cap() && j != bit ==> #[trigger] final(self).bit_at(j) == old(self).bit_at(j),
            forall|w: int| 0 <= w < old(self).data@.len() && w != bit as int / 64 ==> #[trigger] final(self).data@[w] == old(self).data@[w],
            r == (final(self).data@[bit as int / 64] == u64::MAX),
    {
        assert!(bit < self.len);
        let (index, bit_index) = Self::data_index_of(bit);
        let mut group = self.data[index];
        group |= Self::select_mask(bit_index);
        self.data[index] = group;

        proof {
            let ob = old(self).data@[index as int];
            assert forall|j: int| 0 <= j < old(self).cap() && j != bit implies #[trigger] self.bit_at(j) == old(self).bit_at(j) by {
                if j / 64 == index as int {
                    lemma_wbit_or(ob, bit_index as u64, (j % 64) as u64);
                }
            }
            lemma_wbit_or(ob, bit_index as u64, bit_index as u64);
        }
        group == u64::MAX
    }

    pub fn clear(&mut self, bit: u32)
        requires old(self).wf(), bit < old(self).len,
        ensures final(self).wf(), final(self).len == old(self).len, final(self).data@.len() == old(self).data@.len(),
            !final(self).bit_at(bit as int),
            forall|j: int| 0 <= j < old(self).cap() && j != bit ==> #[trigger] final(self).bit_at(j) == old(self).bit_at(j),
            forall|w: int| 0 <= w < old(self).data@.len() && w != bit as int / 64 ==> #[trigger] final(self).data@[w] == old(self).data@[w],
            final(self).data@[bit as int / 64] != u64::MAX,
    {
        assert!(bit < self.len, "{bit} must be less than {}", self.len);
        let (index, bit_index) = Self::data_index_of(bit);
        let ghost ob = self.data@[index as int];
        self.data[index] &= !Self::select_mask(bit_index);
        proof {
            assert forall|j: int| 0 <= j < old(self).cap() && j != bit implies #[trigger] self.bit_at(j) == old(self).bit_at(j) by {
                if j / 64 == index as int {
                    lemma_wbit_andnot(ob, bit_index as u64, (j % 64) as u64);
                }
            }
            lemma_wbit_andnot(ob, bit_index as u64, bit_index as u64);
            lemma_wbit_max(self.data@[index as int]);
        }
    }
}




impl BtreeBitmap {
    pub open spec fn h(&self) -> int { self.heights@.len() as int }
    pub open spec fn lvl(&self, k: int) -> U64GroupedBitmap { self.heights@[k] }
    pub open spec fn leaf(&self) -> U64GroupedBitmap { self.heights@[self.heights@.len() - 1] }
    // summary invariant between level p (parent) and p+1 (child)
    pub open spec fn summary(&self, p: int) -> bool {
        forall|e: int| 0 <= e < self.heights@[p].len ==> (#[trigger] self.heights@[p].bit_at(e) <==> self.heights@[p + 1].data@[e] == u64::MAX)
    }
    pub open spec fn shape_ok(&self) -> bool {
        1 <= self.h() <= 16
        && (forall|k: int| 0 <= k < self.h() ==> (#[trigger] self.heights@[k]).wf() && self.heights@[k].len <= 0x4000_0000)
        && self.heights@[0].len <= 64
        && (forall|k: int| 0 <= k < self.h() - 1 ==> (#[trigger] self.heights@[k]).len as int == (self.heights@[k + 1].len as int + 63) / 64)
    }
    pub open spec fn wf(&self) -> bool {
        self.shape_ok() && forall|p: int| 0 <= p < self.h() - 1 ==> #[trigger] self.summary(p)
    }
    // every summary pair holds except (p, p+1), which holds everywhere but at entry e,
    // and `full` tells whether child word e is all ones
    pub open spec fn wf_except(&self, p: int, e: int, full: bool) -> bool {
        self.shape_ok() && 0 <= p <= self.h() - 2 && 0 <= e < self.heights@[p].len
        && (forall|q: int| 0 <= q < self.h() - 1 && q != p ==> #[trigger] self.summary(q))
        && (forall|e2: int| 0 <= e2 < self.heights@[p].len && e2 != e ==> (#[trigger] self.heights@[p].bit_at(e2) <==> self.heights@[p + 1].data@[e2] == u64::MAX))
        && (full <==> self.heights@[p + 1].data@[e] == u64::MAX)
    }
    // if every entry of level p is set, every leaf entry is set
    pub proof fn lemma_full_down(&self, p: int)
        requires self.wf(), 0 <= p < self.h(),
            forall|e: int| 0 <= e < self.heights@[p].len ==> #[trigger] self.heights@[p].bit_at(e),
        ensures forall|y: int| 0 <= y < self.leaf().len ==> #[trigger] self.leaf().bit_at(y),
        decreases self.h() - p,
    {
        if p < self.h() - 1 {
            let c = self.heights@[p + 1];
            assert(self.summary(p));
            assert(self.heights@[p].wf() && c.wf());
            assert forall|y: int| 0 <= y < c.len implies #[trigger] c.bit_at(y) by {
                assert(self.heights@[p].bit_at(y / 64));
                assert(c.data@[y / 64] == u64::MAX);
                lemma_wbit_max(c.data@[y / 64]);
            }
            self.lemma_full_down(p + 1);
        }
    }
    pub open spec fn same_shape(&self, o: BtreeBitmap) -> bool {
        self.h() == o.h()
        && forall|k: int| 0 <= k < self.h() ==> (#[trigger] self.heights@[k]).len == o.heights@[k].len && self.heights@[k].data@.len() == o.heights@[k].data@.len()
    }
}
pub struct BtreeBitmap {
    pub heights: Vec<U64GroupedBitmap>,
}

// Stores a 64-way bit-tree of allocated ids.
//
// Data structure format:
// height: u32
// layer_ends: array of u32, ending offset in bytes of layers.
// layer data: u64s
// ...consecutive layers. Except for the last level, all sub-trees of the root must be complete
impl BtreeBitmap {
    #[verifier::external_body]
    pub fn count_unset(&self) -> u32 {
        self.get_level(self.get_height() - 1).count_unset()
    }

    pub fn has_unset(&self) -> (r: bool)
        requires self.wf(),
    {
        self.get_level(self.get_height() - 1).any_unset()
    }

    pub fn get(&self, i: u32) -> (r: bool)
        requires self.wf(), i < self.leaf().len,
        ensures r == self.leaf().bit_at(i as int),
    {
        self.get_level(self.get_height() - 1).get(i)
    }

    pub fn len(&self) -> (r: u32)
        requires self.wf(),
        ensures r == self.leaf().len,
    {
        self.get_level(self.get_height() - 1).len()
    }

    pub fn find_first_unset(&self) -> (r: Option<u32>)
        requires self.wf(),
        ensures
            match r {
                Some(x) => x < self.leaf().len && !self.leaf().bit_at(x as int)
                    && forall|y: int| 0 <= y < x ==> #[trigger] self.leaf().bit_at(y),
                None => forall|y: int| 0 <= y < self.leaf().len ==> #[trigger] self.leaf().bit_at(y),
            },
    {
        if let Some(mut entry) = self.get_level(0).first_unset(0, 64) {
            let mut height = 0;
            proof {
                let l0 = self.heights@[0];
                assert(l0.wf());
                // an unset bit cannot be padding
                assert(l0.len > 0);
                assert(l0.cap() >= 64);
                if entry >= l0.len { assert(l0.bit_at(entry as int)); }
            }

            while height < self.get_height() - 1
                invariant
                    self.wf(), (height as int) < self.h(), entry < self.heights@[height as int].len,
                    !self.heights@[height as int].bit_at(entry as int),
                    forall|y: int| 0 <= y < entry ==> #[trigger] self.heights@[height as int].bit_at(y),
                decreases self.h() - height,
            {
                let ghost ph = height as int;
                let ghost parent = entry as int;
                proof {
                    let c = self.heights@[ph + 1];
                    let w = c.data@[parent];
                    assert(self.summary(ph));
                    assert(self.heights@[ph].bit_at(parent) <==> w == u64::MAX);
                    assert(self.heights@[ph].wf() && c.wf());
                    lemma_wbit_max(w);
                    let j = choose|j: u64| j < 64 && !wbit(w, j);
                    assert(!c.bit_at(parent * 64 + j as int)) by {
                        assert((parent * 64 + j as int) / 64 == parent && (parent * 64 + j as int) % 64 == j as int) by (nonlinear_arith)
                            requires 0 <= parent, 0 <= j < 64;
                    }
                }
                height += 1;
                entry *= 64;
                entry = self
                    .get_level(height)
                    .first_unset(entry, entry + 64)
                    .unwrap();
                proof {
                    let c = self.heights@[ph + 1];
                    assert(height as int == ph + 1);
                    // everything left of the parent's word is set, because the parent bits left of it are set
                    assert forall|y: int| 0 <= y < entry implies #[trigger] c.bit_at(y) by {
                        if y < parent * 64 {
                            assert(self.heights@[ph].bit_at(y / 64));
                            assert(c.data@[y / 64] == u64::MAX);
                            lemma_wbit_max(c.data@[y / 64]);
                        }
                    }
                    // an unset bit cannot be padding
                    if entry >= c.len { assert(c.bit_at(entry as int)); }
                }
            }

            Some(entry)
        } else {
            proof {
                let l0 = self.heights@[0];
                assert(l0.wf());
                self.lemma_full_down(0);
            }
            None
        }
    }

    fn get_level(&self, i: u32) -> (r: &U64GroupedBitmap)
        requires (i as int) < self.heights@.len(), self.heights@.len() <= 16,
        ensures *r == self.heights@[i as int],
    {
        assert!(i < self.get_height());
        &self.heights[i as usize]
    }

    fn get_height(&self) -> (r: u32)
        requires self.heights@.len() <= 16,
        ensures r as int == self.heights@.len(),
    {
        self.heights.len().try_into().unwrap()
    }

    // Returns the first unset id, and sets it
    pub fn alloc(&mut self) -> (r: Option<u32>)
        requires old(self).wf(),
        ensures final(self).wf(), final(self).same_shape(*old(self)),
            match r {
                Some(x) => x < old(self).leaf().len && !old(self).leaf().bit_at(x as int)
                    && (forall|y: int| 0 <= y < x ==> #[trigger] old(self).leaf().bit_at(y))
                    && final(self).leaf().bit_at(x as int)
                    && forall|j: int| 0 <= j < old(self).leaf().len && j != x ==> #[trigger] final(self).leaf().bit_at(j) == old(self).leaf().bit_at(j),
                None => (forall|y: int| 0 <= y < old(self).leaf().len ==> #[trigger] old(self).leaf().bit_at(y)) && *final(self) == *old(self),
            },
    {
        let entry = self.find_first_unset()?;
        self.set(entry);
        Some(entry)
    }

    pub fn set(&mut self, i: u32)
        requires old(self).wf(), i < old(self).leaf().len,
        ensures final(self).wf(), final(self).same_shape(*old(self)),
            final(self).leaf().bit_at(i as int),
            forall|j: int| 0 <= j < old(self).leaf().len && j != i ==> #[trigger] final(self).leaf().bit_at(j) == old(self).leaf().bit_at(j),
    {
        let full = self.get_level_mut(self.get_height() - 1).set(i);
        proof { lemma_leaf_changed(*old(self), *self, i as int, full); }
        self.update_to_root(i, full);
    }

    pub fn clear(&mut self, i: u32)
        requires old(self).wf(), i < old(self).leaf().len,
        ensures final(self).wf(), final(self).same_shape(*old(self)),
            !final(self).leaf().bit_at(i as int),
            forall|j: int| 0 <= j < old(self).leaf().len && j != i ==> #[trigger] final(self).leaf().bit_at(j) == old(self).leaf().bit_at(j),
    {
        self.get_level_mut(self.get_height() - 1).clear(i);
        proof { lemma_leaf_changed(*old(self), *self, i as int, false); }
        self.update_to_root(i, false);
    }

    fn get_level_mut(&mut self, i: u32) -> (r: &mut U64GroupedBitmap)
        requires (i as int) < old(self).heights@.len(), old(self).heights@.len() <= 16,
        ensures *r == old(self).heights@[i as int],
            final(self).heights@ == old(self).heights@.update(i as int, *final(r)),
    {
        assert!(i < self.get_height());
        &mut self.heights[i as usize]
    }

    // Recursively update to the root, starting at the given entry in the given height
    // full parameter must be set if all bits in the entry's group of u64 are full
    fn update_to_root(&mut self, i: u32, mut full: bool)
        requires old(self).shape_ok(), i < old(self).leaf().len,
            old(self).h() >= 2 ==> old(self).wf_except(old(self).h() - 2, i as int / 64, full),
        ensures final(self).wf(), final(self).same_shape(*old(self)), final(self).leaf() == old(self).leaf(),
    {
        if self.get_height() == 1 {
            return;
        }

        let mut parent_height = self.get_height() - 2;
        let mut parent_entry = i / 64;
        loop
            invariant_except_break
                self.wf_except(parent_height as int, parent_entry as int, full),
                self.same_shape(*old(self)), self.leaf() == old(self).leaf(),
            ensures
                self.wf(), self.same_shape(*old(self)), self.leaf() == old(self).leaf(),
            decreases parent_height,
        {
            let ghost pre = *self;
            full = if full {
                self.get_level_mut(parent_height).set(parent_entry)
            } else {
                self.get_level_mut(parent_height).clear(parent_entry);
                false
            };

            proof {
                let p = parent_height as int;
                let e = parent_entry as int;
                assert(self.heights@ == pre.heights@.update(p, self.heights@[p]));
                assert forall|k: int| 0 <= k < self.h() && k != p implies #[trigger] self.heights@[k] == pre.heights@[k] by {}
                // pair (p, p+1) is whole again
                assert(self.summary(p)) by {
                    assert forall|e2: int| 0 <= e2 < self.heights@[p].len implies (#[trigger] self.heights@[p].bit_at(e2) <==> self.heights@[p + 1].data@[e2] == u64::MAX) by {
                        if e2 != e { assert(pre.heights@[p].bit_at(e2) <==> pre.heights@[p + 1].data@[e2] == u64::MAX); }
                    }
                }
                // pairs not touching level p are as before
                assert forall|q: int| 0 <= q < self.h() - 1 && q != p && q + 1 != p implies #[trigger] self.summary(q) by {
                    assert(pre.summary(q));
                }
                if p > 0 {
                    // pair (p-1, p): only word e/64 of level p changed
                    assert forall|e2: int| 0 <= e2 < self.heights@[p - 1].len && e2 != e / 64 implies (#[trigger] self.heights@[p - 1].bit_at(e2) <==> self.heights@[p - 1 + 1].data@[e2] == u64::MAX) by {
                        assert(pre.summary(p - 1));
                        assert(pre.heights@[p - 1].bit_at(e2) <==> pre.heights@[p - 1 + 1].data@[e2] == u64::MAX);
                    }
                    assert(e / 64 < self.heights@[p - 1].len);
                } else {
                    assert forall|q: int| 0 <= q < self.h() - 1 implies #[trigger] self.summary(q) by {}
                }
            }
            if parent_height == 0 {
                break;
            }
            parent_height -= 1;
            parent_entry /= 64;
        }
    }
}


// after the leaf word holding bit i changed, the tree is whole except for the pair above the leaf
pub proof fn lemma_leaf_changed(o: BtreeBitmap, n: BtreeBitmap, i: int, full: bool)
    requires
        o.wf(), 0 <= i < o.leaf().len,
        n.heights@ == o.heights@.update(o.h() - 1, n.leaf()),
        n.leaf().wf(), n.leaf().len == o.leaf().len, n.leaf().data@.len() == o.leaf().data@.len(),
        forall|w: int| 0 <= w < o.leaf().data@.len() && w != i / 64 ==> #[trigger] n.leaf().data@[w] == o.leaf().data@[w],
        full <==> n.leaf().data@[i / 64] == u64::MAX,
    ensures
        n.shape_ok(), n.same_shape(o),
        n.h() >= 2 ==> n.wf_except(n.h() - 2, i / 64, full),
{
    let h = o.h();
    assert forall|k: int| 0 <= k < h - 1 implies #[trigger] n.heights@[k] == o.heights@[k] by {}
    assert(n.heights@[h - 1] == n.leaf());
    assert(o.heights@[h - 1] == o.leaf());
    if h >= 2 {
        let p = h - 2;
        assert forall|q: int| 0 <= q < h - 1 && q != p implies #[trigger] n.summary(q) by {
            assert(o.summary(q));
        }
        assert(o.summary(p));
        assert(o.heights@[p].wf() && o.heights@[p + 1].wf());
        assert forall|e2: int| 0 <= e2 < n.heights@[p].len && e2 != i / 64 implies (#[trigger] n.heights@[p].bit_at(e2) <==> n.heights@[p + 1].data@[e2] == u64::MAX) by {
            assert(o.heights@[p].bit_at(e2) <==> o.heights@[p + 1].data@[e2] == u64::MAX);
        }
    }
}

pub open spec fn cap_bound(k: int) -> int {
    if k <= 0 { 0x4000_0000 } else if k == 1 { 0x100_0000 } else if k == 2 { 0x4_0000 } else if k == 3 { 0x1000 } else { 64 }
}
impl BtreeBitmap {
    pub open spec fn all_full(&self) -> bool {
        forall|k: int, w: int| 0 <= k < self.h() && 0 <= w < self.heights@[k].data@.len() ==> #[trigger] self.heights@[k].data@[w] == u64::MAX
    }
}
impl BtreeBitmap {
    // Initializes a new allocator, with no ids free
    pub fn new(mut num_pages: u32, mut capacity: u32) -> (r: Self)
        requires num_pages <= capacity, capacity <= 0x4000_0000,
        ensures r.wf(), r.all_full(), r.leaf().len == num_pages, r.h() <= 5,
            r.leaf().data@.len() == (capacity as int + 63) / 64,
    {
        let mut heights: Vec<U64GroupedBitmap> = vec![];      // R13: type ascription added
        let ghost n0 = num_pages;
        let ghost c0 = capacity;

        // Build from the leaf to root
        loop
            invariant_except_break
                num_pages <= capacity, capacity as int <= cap_bound(heights@.len() as int), heights@.len() <= 4,
                forall|j: int| 0 <= j < heights@.len() ==> (#[trigger] heights@[j]).wf() && heights@[j].len <= 0x4000_0000
                    && (forall|w: int| 0 <= w < heights@[j].data@.len() ==> #[trigger] heights@[j].data@[w] == u64::MAX),
                forall|j: int| 0 <= j < heights@.len() - 1 ==> (#[trigger] heights@[j + 1]).len as int == (heights@[j].len as int + 63) / 64,
                heights@.len() > 0 ==> num_pages as int == (heights@[heights@.len() - 1].len as int + 63) / 64,
                heights@.len() > 0 ==> heights@[0].len == n0 && heights@[0].data@.len() == (c0 as int + 63) / 64,
                heights@.len() == 0 ==> num_pages == n0 && capacity == c0,
            ensures
                1 <= heights@.len() <= 5,
                forall|j: int| 0 <= j < heights@.len() ==> (#[trigger] heights@[j]).wf() && heights@[j].len <= 0x4000_0000
                    && (forall|w: int| 0 <= w < heights@[j].data@.len() ==> #[trigger] heights@[j].data@[w] == u64::MAX),
                forall|j: int| 0 <= j < heights@.len() - 1 ==> (#[trigger] heights@[j + 1]).len as int == (heights@[j].len as int + 63) / 64,
                heights@[heights@.len() - 1].len <= 64,
                heights@[0].len == n0 && heights@[0].data@.len() == (c0 as int + 63) / 64,
            decreases capacity,
        {
            let ghost before = heights@;
            heights.push(U64GroupedBitmap::new_full(num_pages, capacity));
            proof {
                let nl = heights@[heights@.len() - 1];
                lemma_wbit_max(u64::MAX);
                assert forall|w: int| 0 <= w < nl.data@.len() implies #[trigger] nl.data@[w] == u64::MAX by {
                    assert(nl.bit_at(w * 64));   // every bit is set, so is every word
                    assert forall|jj: u64| jj < 64 implies #[trigger] wbit(nl.data@[w], jj) by {
                        assert(nl.bit_at(w * 64 + jj as int));
                        assert((w * 64 + jj as int) / 64 == w && (w * 64 + jj as int) % 64 == jj as int);
                    }
                    lemma_wbit_max(nl.data@[w]);
                }
                assert forall|j: int| 0 <= j < heights@.len() - 1 implies heights@[j] == before[j] by {}
            }
            if capacity <= 64 {
                break;
            }
            capacity = div_ceil_u32(capacity, 64);
            num_pages = div_ceil_u32(num_pages, 64);
        }

        // Reverse so that the root is at index 0
        let ghost hs = heights@;
        vec_reverse(&mut heights);
        proof {
            let n = hs.len() as int;
            assert forall|k: int| 0 <= k < n implies #[trigger] heights@[k] == hs[n - 1 - k] by {}
            assert forall|k: int| 0 <= k < n - 1 implies (#[trigger] heights@[k]).len as int == (heights@[k + 1].len as int + 63) / 64 by {
                assert(heights@[k] == hs[n - 1 - k]);
                assert(heights@[k + 1] == hs[n - 2 - k]);
                assert(hs[(n - 2 - k) + 1].len as int == (hs[n - 2 - k].len as int + 63) / 64);
            }
        }
        let r = Self { heights };
        proof {
            assert forall|p: int| 0 <= p < r.h() - 1 implies #[trigger] r.summary(p) by {
                let par = r.heights@[p];
                let ch = r.heights@[p + 1];
                assert(par.wf() && ch.wf());
                assert forall|e: int| 0 <= e < par.len implies (#[trigger] par.bit_at(e) <==> ch.data@[e] == u64::MAX) by {
                    assert(par.data@[e / 64] == u64::MAX);
                    lemma_wbit_max(par.data@[e / 64]);
                    assert(ch.data@[e] == u64::MAX);
                }
            }
        }
        r
    }

    // Like new(), but pads the tree height for max_capacity so resize()
    // never needs to insert new levels.
    pub fn new_padded(num_pages: u32, capacity: u32, max_capacity: u32) -> (r: Self)
        requires num_pages <= capacity, capacity <= 0x4000_0000, max_capacity <= 0x4000_0000,
        ensures r.wf(), r.all_full(), r.leaf().len == num_pages, r.h() <= 5,
            r.leaf().data@.len() == (capacity as int + 63) / 64,
    {
        let mut result = Self::new(num_pages, capacity);

        let max_height = Self::height_for_capacity(max_capacity);
        while result.heights.len() < max_height
            invariant result.wf(), result.all_full(), result.leaf().len == num_pages, result.h() <= 5, max_height <= 5,
                result.leaf().data@.len() == (capacity as int + 63) / 64,
            decreases max_height - result.heights@.len(),
        {
            let ghost pre = result;
            let root_len = result.heights[0].len();
            let parent_len = div_ceil_u32(root_len, 64);
            result
                .heights
                .insert(0, U64GroupedBitmap::new_full(parent_len, parent_len));
            proof {
                let nr = result.heights@[0];
                assert forall|k: int| 1 <= k < result.h() implies #[trigger] result.heights@[k] == pre.heights@[k - 1] by {}
                assert(pre.heights@[0].wf());
                lemma_wbit_max(u64::MAX);
                assert forall|w: int| 0 <= w < nr.data@.len() implies #[trigger] nr.data@[w] == u64::MAX by {
                    assert forall|jj: u64| jj < 64 implies #[trigger] wbit(nr.data@[w], jj) by {
                        assert(nr.bit_at(w * 64 + jj as int));
                        assert((w * 64 + jj as int) / 64 == w && (w * 64 + jj as int) % 64 == jj as int);
                    }
                    lemma_wbit_max(nr.data@[w]);
                }
                assert forall|p: int| 0 <= p < result.h() - 1 implies #[trigger] result.summary(p) by {
                    if p == 0 {
                        let ch = result.heights@[1];
                        assert forall|e: int| 0 <= e < nr.len implies (#[trigger] nr.bit_at(e) <==> ch.data@[e] == u64::MAX) by {
                            assert(nr.data@[e / 64] == u64::MAX);
                            lemma_wbit_max(nr.data@[e / 64]);
                            assert(ch.data@[e] == u64::MAX);
                        }
                    } else {
                        assert(pre.summary(p - 1));
                        assert(result.heights@[p] == pre.heights@[p - 1]);
                        assert(result.heights@[p + 1] == pre.heights@[p - 1 + 1]);
                    }
                }
            }
        }

        result
    }

    fn height_for_capacity(mut capacity: u32) -> (r: usize)
        requires capacity <= 0x4000_0000,
        ensures 1 <= r <= 5,
    {
        let mut height = 1;
        while capacity > 64
            invariant 1 <= height <= 5, capacity as int <= cap_bound(height as int - 1),
            decreases capacity,
        {
            capacity = div_ceil_u32(capacity, 64);
            height += 1;
        }
        height
    }


}

fn main() {}
}

// appended to src/tree_store/page_store/savepoint.rs in a scratch copy of the crate during the design round

#[cfg(kani)]
mod verif_kani {
    use super::*;
    use crate::tree_store::PageNumber;

    fn stub_format(_: core::fmt::Arguments<'_>) -> alloc::string::String { alloc::string::String::new() }

    #[kani::proof]
    #[kani::unwind(50)]
    #[kani::stub(alloc::fmt::format, stub_format)]
    fn savepoint_decode_some() {
        let tracker = Arc::new(TransactionTracker::new(TransactionId::new(0)));
        let region: u32 = kani::any();
        let index: u32 = kani::any();
        let order: u8 = kani::any();
        kani::assume(region <= 0x000F_FFFF && order <= 20 && u64::from(index) < (1u64 << (20 - order)));
        let root = Some(BtreeHeader::new(PageNumber::new(region, index, order), kani::any(), kani::any()));
        let sp = Savepoint {
            version: FILE_FORMAT_VERSION3,
            id: SavepointId(kani::any()),
            transaction_id: TransactionId::new(kani::any()),
            user_root: root,
            transaction_tracker: tracker.clone(),
            ephemeral: false,
        };
        let ser = SerializedSavepoint::from_savepoint(&sp);
        let Ok(back) = ser.to_savepoint(tracker.clone()) else { panic!() };
        assert!(back.id == sp.id);
        assert!(back.transaction_id == sp.transaction_id);
        assert!(back.user_root == sp.user_root);
        assert!(!back.ephemeral);
        core::mem::forget(back);
        core::mem::forget(ser);
        core::mem::forget(sp);
        core::mem::forget(tracker);
    }

    #[kani::proof]
    #[kani::unwind(50)]
    #[kani::stub(alloc::fmt::format, stub_format)]
    fn savepoint_roundtrip() {
        let tracker = Arc::new(TransactionTracker::new(TransactionId::new(0)));
        let root = if kani::any() {
            let region: u32 = kani::any();
            let index: u32 = kani::any();
            let order: u8 = kani::any();
            kani::assume(region <= 0x000F_FFFF && order <= 20 && u64::from(index) < (1u64 << (20 - order)));
            Some(BtreeHeader::new(PageNumber::new(region, index, order), kani::any(), kani::any()))
        } else {
            None
        };
        let sp = Savepoint {
            version: FILE_FORMAT_VERSION3,
            id: SavepointId(kani::any()),
            transaction_id: TransactionId::new(kani::any()),
            user_root: root,
            transaction_tracker: tracker.clone(),
            ephemeral: false,
        };
        let ser = SerializedSavepoint::from_savepoint(&sp);
        let d = ser.data();
        assert!(d.len() == 1 + 8 + 8 + 1 + 32);
        assert!(d[0] == 3);
        let mut t = [0u8; 8];
        t.copy_from_slice(&d[1..9]);
        assert!(u64::from_le_bytes(t) == sp.id.0);
        t.copy_from_slice(&d[9..17]);
        assert!(u64::from_le_bytes(t) == sp.transaction_id.raw_id());
        match sp.user_root {
            Some(h) => { assert!(d[17] == 1); let mut b = [0u8; 32]; b.copy_from_slice(&d[18..50]); assert!(b == h.to_le_bytes()); }
            None => { assert!(d[17] == 0); }
        }
        core::mem::forget(ser);
        core::mem::forget(sp);
        core::mem::forget(tracker);
    }
}

// appended to src/tree_store/page_store/cached_file.rs in a scratch copy of the crate during the design round

#[cfg(kani)]
mod verif_kani {
    use super::*;
    use core::sync::atomic::AtomicU32;

    // Every backend call is counted; each result is nondeterministic.
    #[derive(Debug)]
    struct Mock {
        calls: Arc<AtomicU32>,
        closes: Arc<AtomicU32>,
    }

    impl Mock {
        fn res<T>(&self, v: T) -> core::result::Result<T, crate::io::Error> {
            self.calls.fetch_add(1, Ordering::Relaxed);
            if kani::any() {
                Ok(v)
            } else {
                Err(crate::io::Error::from(std::io::ErrorKind::Other))
            }
        }
    }

    impl StorageBackend for Mock {
        fn len(&self) -> core::result::Result<u64, crate::io::Error> { self.res(kani::any()) }
        fn read(&self, _o: u64, _out: &mut [u8]) -> core::result::Result<(), crate::io::Error> { self.res(()) }
        fn set_len(&self, _l: u64) -> core::result::Result<(), crate::io::Error> { self.res(()) }
        fn sync_data(&self) -> core::result::Result<(), crate::io::Error> { self.res(()) }
        fn write(&self, _o: u64, _d: &[u8]) -> core::result::Result<(), crate::io::Error> { self.res(()) }
        fn close(&self) -> core::result::Result<(), crate::io::Error> {
            self.closes.fetch_add(1, Ordering::Relaxed);
            self.res(())
        }
    }

    #[kani::proof]
    fn latch_step() {
        let calls = Arc::new(AtomicU32::new(0));
        let closes = Arc::new(AtomicU32::new(0));
        let b = CheckedBackend::new(Box::new(Mock { calls: calls.clone(), closes: closes.clone() }));
        // arbitrary pre-state satisfying the invariant closed => io_failed
        let pre_failed: bool = kani::any();
        let pre_closed: bool = kani::any();
        kani::assume(!pre_closed || pre_failed);
        b.io_failed.store(pre_failed, Ordering::Release);
        b.closed.store(pre_closed, Ordering::Release);

        let op: u8 = kani::any();
        kani::assume(op < 6);
        let mut buf = [0u8; 4];
        let ok = match op {
            0 => b.len().is_ok(),
            1 => b.read(0, &mut buf).is_ok(),
            2 => b.set_len(8).is_ok(),
            3 => b.sync_data().is_ok(),
            4 => b.write(0, &buf).is_ok(),
            _ => b.write_best_effort(0, &buf).is_ok(),
        };
        let n = calls.load(Ordering::Relaxed);
        let post_failed = b.io_failed.load(Ordering::Acquire);
        let post_closed = b.closed.load(Ordering::Acquire);
        if pre_failed {
            assert!(!ok);
            assert!(n == 0);
        } else {
            assert!(n == 1);
            if !ok && op != 5 { assert!(post_failed); }
            if ok { assert!(!post_failed); }
        }
        assert!(post_closed == pre_closed);
        assert!(!post_failed || pre_failed || !ok);
        assert!(!pre_failed || post_failed);
        core::mem::forget(b);
    }
}

#[cfg(kani)]
pub(super) mod verif_stub {
    use super::*;

    // Trace of storage operations seen by the stubs: (kind, god byte) with kind 1=write@0, 2=flush, 3=resize
    pub(crate) static mut TRACE: [(u8, u8, u64); 8] = [(0, 0, 0); 8];
    pub(crate) static mut TRACE_LEN: usize = 0;
    static mut SHARED: Option<Arc<Mutex<LRUWriteCache>>> = None;

    pub(crate) fn push(kind: u8, god: u8, txn: u64) {
        unsafe {
            if TRACE_LEN < 8 {
                TRACE[TRACE_LEN] = (kind, god, txn);
            }
            TRACE_LEN += 1;
        }
    }

    pub(crate) fn stub_write(_this: &PagedCachedFile, offset: u64, len: usize, _overwrite: bool) -> Result<WritablePage> {
        if kani::any() {
            return Err(StorageError::PreviousIo);
        }
        let buffer = unsafe {
            let p = &raw mut SHARED;
            if (*p).is_none() {
                *p = Some(Arc::new(Mutex::new(LRUWriteCache::default())));
            }
            (*p).as_ref().unwrap().clone()
        };
        Ok(WritablePage {
            buffer,
            offset,
            data: { assert!(len == 320); let a: Arc<[u8]> = Arc::new([0u8; 320]); a },
        })
    }

    pub(crate) fn stub_return_value(_this: &mut LRUWriteCache, key: u64, value: Arc<[u8]>) {
        // god byte at offset 9; slot 0 at 64, slot 1 at 192; txn id at +104
        let god = value[9];
        let sec = if god & 1 == 0 { 192 } else { 64 };
        let mut t = [0u8; 8];
        t.copy_from_slice(&value[sec + 104..sec + 112]);
        push(1, god, u64::from_le_bytes(t));
        let _ = key;
    }

    pub(crate) fn stub_flush(_this: &PagedCachedFile) -> Result {
        push(2, 0, 0);
        if kani::any() { Ok(()) } else { Err(StorageError::PreviousIo) }
    }

    pub(crate) fn stub_resize(_this: &PagedCachedFile, len: u64) -> Result {
        push(3, 0, len);
        if kani::any() { Ok(()) } else { Err(StorageError::PreviousIo) }
    }

    #[derive(Debug)]
    struct Null;
    impl StorageBackend for Null {
        fn len(&self) -> core::result::Result<u64, crate::io::Error> { Ok(0) }
        fn read(&self, _o: u64, _out: &mut [u8]) -> core::result::Result<(), crate::io::Error> { Ok(()) }
        fn set_len(&self, _l: u64) -> core::result::Result<(), crate::io::Error> { Ok(()) }
        fn sync_data(&self) -> core::result::Result<(), crate::io::Error> { Ok(()) }
        fn write(&self, _o: u64, _d: &[u8]) -> core::result::Result<(), crate::io::Error> { Ok(()) }
    }

    pub(crate) fn bare_file(page_size: u64) -> PagedCachedFile {
        PagedCachedFile {
            file: CheckedBackend::new(Box::new(Null)),
            page_size,
            read_cache_bytes: AtomicUsize::new(0),
            write_buffer_bytes: AtomicUsize::new(0),
            committed_pages_buffered: AtomicBool::new(false),
            max_cache_size: 0,
            next_eviction_stripe: AtomicUsize::new(0),
            read_cache: Vec::new(),
            write_buffer: Vec::new(),
        }
    }
}

// appended to src/tree_store/table_tree_base.rs in a scratch copy of the crate during the design round

#[cfg(kani)]
mod verif_kani {
    use super::*;

    fn stub_format(_: core::fmt::Arguments<'_>) -> alloc::string::String { alloc::string::String::new() }

    fn pick_name(i: u8) -> TypeName {
        match i {
            0 => TypeName::internal("u64"),
            1 => TypeName::internal("&str"),
            2 => TypeName::new("u64"),
            _ => TypeName::internal("u32"),
        }
    }

    // check_match::<u64, &str>: Ok  ==>  kind, alignments, type names and widths all agree
    #[kani::proof]
    #[kani::unwind(12)]
    #[kani::stub(alloc::fmt::format, stub_format)]
    fn check_match_sound() {
        let ki: u8 = kani::any();
        let vi: u8 = kani::any();
        kani::assume(ki < 4 && vi < 4);
        let fixed_key_size: Option<usize> = if kani::any() { Some(kani::any::<u8>() as usize) } else { None };
        let fixed_value_size: Option<usize> = if kani::any() { Some(kani::any::<u8>() as usize) } else { None };
        let key_alignment: usize = kani::any::<u8>() as usize;
        let value_alignment: usize = kani::any::<u8>() as usize;
        let multimap: bool = kani::any();
        let def = if multimap {
            InternalTableDefinition::Multimap { table_root: None, table_length: 0, fixed_key_size, fixed_value_size, key_alignment, value_alignment, key_type: pick_name(ki), value_type: pick_name(vi) }
        } else {
            InternalTableDefinition::Normal { table_root: None, table_length: 0, fixed_key_size, fixed_value_size, key_alignment, value_alignment, key_type: pick_name(ki), value_type: pick_name(vi) }
        };
        let want_multimap: bool = kani::any();
        let want = if want_multimap { TableType::Multimap } else { TableType::Normal };
        let r = def.check_match::<u64, &str>(want, "t");
        kani::cover!(r.is_ok());
        kani::cover!(r.is_err());
        if r.is_ok() {
            assert!(multimap == want_multimap);
            assert!(key_alignment == 1 && value_alignment == 1);
            assert!(ki == 0 && vi == 1);
            assert!(fixed_key_size == Some(8) && fixed_value_size.is_none());
        }
        if multimap == want_multimap && key_alignment == 1 && value_alignment == 1 && ki == 0 && vi == 1
            && fixed_key_size == Some(8) && fixed_value_size.is_none() {
            assert!(r.is_ok());
        }
        core::mem::forget(r);
        core::mem::forget(def);
    }
}

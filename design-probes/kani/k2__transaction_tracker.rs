// appended to src/transaction_tracker.rs in a scratch copy of the crate during the design round

#[cfg(kani)]
mod verif_kani {
    use super::*;

    #[kani::proof]
    #[kani::unwind(8)]
    fn tracker_new_only() {
        let tracker = TransactionTracker::new(TransactionId::new(0));
        core::mem::forget(tracker);
    }

    #[kani::proof]
    #[kani::unwind(8)]
    fn tracker_arc_only() {
        let tracker = Arc::new(TransactionTracker::new(TransactionId::new(0)));
        let t2 = tracker.clone();
        core::mem::forget(t2);
        core::mem::forget(tracker);
    }

    #[kani::proof]
    #[kani::unwind(8)]
    fn tracker_ids() {
        let tracker = TransactionTracker::new(TransactionId::new(kani::any()));
        let a: u64 = kani::any();
        let before = tracker.state.lock().unwrap().next_transaction_id;
        kani::assume(before.raw_id() < u64::MAX);
        tracker.reserve_repair_transaction_id(TransactionId::new(a));
        let after = tracker.state.lock().unwrap().next_transaction_id;
        assert!(after >= before && after >= TransactionId::new(a));
        core::mem::forget(tracker);
    }
}

// appended to src/tree_store/page_store/buddy_allocator.rs in a scratch copy of the crate during the design round

#[cfg(kani)]
mod verif_kani {
    use super::*;

    #[kani::proof]
    #[kani::unwind(70)]
    fn buddy_serialize_roundtrip() {
        let mut a = BuddyAllocator::new(8, 8);
        let o1: u8 = kani::any();
        kani::assume(o1 <= 3);
        let _ = a.alloc(o1);
        let bytes = a.to_vec();
        let b = BuddyAllocator::from_bytes(&bytes);
        assert!(b.len() == a.len());
        assert!(b.get_max_order() == a.get_max_order());
        let mut order = 0u8;
        while order <= 3 {
            let la = a.get_order_free(order);
            let lb = b.get_order_free(order);
            assert!(la.len() == lb.len());
            let mut i = 0;
            while i < la.len() {
                assert!(la.get(i) == lb.get(i));
                i += 1;
            }
            order += 1;
        }
    }
}

// appended to src/types.rs in a scratch copy of the crate during the design round

#[cfg(kani)]
mod verif_kani {
    use super::*;

    const L: usize = 3;

    fn any_slice(buf: &[u8; L]) -> &[u8] {
        let n: usize = kani::any();
        kani::assume(n <= L);
        &buf[..n]
    }

    #[kani::proof]
    #[kani::unwind(6)]
    fn bytes_separator_bounded() {
        let a: [u8; L] = kani::any();
        let b: [u8; L] = kani::any();
        let left = any_slice(&a);
        let right = any_slice(&b);
        kani::assume(left < right);
        let s = <&[u8] as Key>::separator(left, right);
        let s: &[u8] = &s;
        assert!(left <= s);
        assert!(s < right);
        assert!(s.len() <= left.len());
        kani::cover!(s.len() < left.len());
        kani::cover!(s.len() == left.len());
    }

    #[kani::proof]
    #[kani::unwind(8)]
    fn str_separator_bounded() {
        let a: [u8; L] = kani::any();
        let b: [u8; L] = kani::any();
        let left = any_slice(&a);
        let right = any_slice(&b);
        kani::assume(core::str::from_utf8(left).is_ok());
        kani::assume(core::str::from_utf8(right).is_ok());
        kani::assume(left < right);
        let s = <&str as Key>::separator(left, right);
        let s: &[u8] = &s;
        assert!(core::str::from_utf8(s).is_ok());
        assert!(left <= s);
        assert!(s < right);
        assert!(s.len() <= left.len());
    }

    #[kani::proof]
    #[kani::unwind(12)]
    fn option_bytes_separator_bounded() {
        // Option<&[u8]> keys: tag byte + payload of length <= 2
        let a: [u8; 3] = kani::any();
        let b: [u8; 3] = kani::any();
        let la: usize = kani::any();
        let lb: usize = kani::any();
        kani::assume(1 <= la && la <= 3 && 1 <= lb && lb <= 3);
        kani::assume(a[0] <= 1 && b[0] <= 1);
        kani::assume(a[0] == 1 || la == 1);
        kani::assume(b[0] == 1 || lb == 1);
        let left = &a[..la];
        let right = &b[..lb];
        kani::assume(<Option<&[u8]> as Key>::compare(left, right).is_lt());
        let s = <Option<&[u8]> as Key>::separator(left, right);
        let s: &[u8] = &s;
        assert!(<Option<&[u8]> as Key>::compare(left, s).is_le());
        assert!(<Option<&[u8]> as Key>::compare(s, right).is_lt());
        assert!(s.len() <= left.len());
        assert!(s.len() >= 1 && s[0] <= 1);
    }

    #[kani::proof]
    fn option_u64_order() {
        let a: Option<u64> = if kani::any() { Some(kani::any()) } else { None };
        let b: Option<u64> = if kani::any() { Some(kani::any()) } else { None };
        let ab = <Option<u64> as Value>::as_bytes(&a);
        let bb = <Option<u64> as Value>::as_bytes(&b);
        assert!(<Option<u64> as Key>::compare(&ab, &bb) == a.cmp(&b));
        assert!(<Option<u64> as Value>::from_bytes(&ab) == a);
    }

    #[kani::proof]
    fn u64_order() {
        let a: u64 = kani::any();
        let b: u64 = kani::any();
        let ab = <u64 as Value>::as_bytes(&a);
        let bb = <u64 as Value>::as_bytes(&b);
        assert!(<u64 as Key>::compare(&ab, &bb) == a.cmp(&b));
        assert!(<u64 as Value>::from_bytes(&ab) == a);
    }

    #[kani::proof]
    fn i128_order() {
        let a: i128 = kani::any();
        let b: i128 = kani::any();
        let ab = <i128 as Value>::as_bytes(&a);
        let bb = <i128 as Value>::as_bytes(&b);
        assert!(<i128 as Key>::compare(&ab, &bb) == a.cmp(&b));
        assert!(<i128 as Value>::from_bytes(&ab) == a);
    }

    #[kani::proof]
    fn char_order() {
        let a: char = kani::any();
        let b: char = kani::any();
        let ab = <char as Value>::as_bytes(&a);
        let bb = <char as Value>::as_bytes(&b);
        assert!(<char as Key>::compare(&ab, &bb) == a.cmp(&b));
        assert!(<char as Value>::from_bytes(&ab) == a);
    }
}

// appended to src/tree_store/btree_base.rs in a scratch copy of the crate during the design round

#[cfg(kani)]
mod verif_kani {
    use super::*;

    struct TestPage { mem: [u8; 96] }
    impl Page for TestPage {
        fn memory(&self) -> &[u8] { &self.mem }
        fn get_page_number(&self) -> PageNumber { PageNumber::new(0, 0, 0) }
    }

    #[kani::proof]
    #[kani::unwind(20)]
    fn leaf_position_fixed() {
        let k: [u8; 3] = kani::any();
        kani::assume(k[0] < k[1] && k[1] < k[2]);
        let v: [u8; 3] = kani::any();
        let mut page = [0u8; 16];
        {
            let mut b = RawLeafBuilder::new(&mut page, 3, Some(1), Some(1), 3);
            b.append(&k[0..1], &v[0..1]);
            b.append(&k[1..2], &v[1..2]);
            b.append(&k[2..3], &v[2..3]);
        }
        let acc = LeafAccessor::new(&page, Some(1), Some(1));
        let q: u8 = kani::any();
        let (pos, found) = acc.position::<u8>(&[q]);
        // model: number of keys < q, found iff q is a key
        let below = (k[0] < q) as usize + (k[1] < q) as usize + (k[2] < q) as usize;
        assert!(pos == below);
        assert!(found == (q == k[0] || q == k[1] || q == k[2]));
    }

    #[kani::proof]
    #[kani::unwind(70)]
    fn branch_route_fixed() {
        let k: [u8; 2] = kani::any();
        kani::assume(k[0] < k[1]);
        let mut tp = TestPage { mem: [0u8; 96] };
        let required = RawBranchBuilder::required_bytes(2, 2, Some(1));
        assert!(required <= 96);
        let c0 = PageNumber::new(0, 1, 0);
        let c1 = PageNumber::new(0, 2, 0);
        let c2 = PageNumber::new(0, 3, 0);
        {
            let mut b = RawBranchBuilder::new(&mut tp.mem, 2, Some(1));
            b.write_first_page(c0, 11);
            b.write_nth_key(&k[0..1], c1, 12, 0);
            b.write_nth_key(&k[1..2], c2, 13, 1);
        }
        let acc = BranchAccessor::new(&tp, Some(1));
        assert!(acc.count_children() == 3);
        assert!(acc.child_page(0) == Some(c0) && acc.child_page(1) == Some(c1) && acc.child_page(2) == Some(c2));
        assert!(acc.child_checksum(1) == Some(12));
        let q: u8 = kani::any();
        let (idx, child) = acc.child_for_key::<u8>(&[q]);
        let expect = if q <= k[0] { 0 } else if q <= k[1] { 1 } else { 2 };
        assert!(idx == expect);
        assert!(child == if expect == 0 { c0 } else if expect == 1 { c1 } else { c2 });
    }

    // LeafMutator::insert on a 1-pair leaf (variable/variable), any position, key/value <= 2 bytes
    #[kani::proof]
    #[kani::unwind(40)]
    fn leaf_mutator_insert_bounded() {
        let kb: [[u8; 2]; 2] = kani::any();
        let vb: [[u8; 2]; 2] = kani::any();
        let kl0: usize = kani::any();
        let kl1: usize = kani::any();
        let vl0: usize = kani::any();
        let vl1: usize = kani::any();
        kani::assume(kl0 == 1 && kl1 == 2 && vl0 == 2 && vl1 == 1);
        let (kl0, kl1, vl0, vl1) = (1usize, 2usize, 2usize, 1usize);
        let k0 = &kb[0][..kl0];
        let k1 = &kb[1][..kl1];
        let v0 = &vb[0][..vl0];
        let v1 = &vb[1][..vl1];
        let mut page = [0u8; 36];
        {
            let mut b = RawLeafBuilder::new(&mut page, 1, None, None, kl0);
            b.append(k0, v0);
        }
        let pos: usize = kani::any();
        kani::assume(pos <= 1);
        {
            let mut m = LeafMutator::new(&mut page, None, None);
            m.insert(pos, k1, v1);
        }
        let acc = LeafAccessor::new(&page, None, None);
        assert!(acc.num_pairs() == 2);
        let e0 = acc.entry(0).unwrap();
        let e1 = acc.entry(1).unwrap();
        if pos == 0 {
            assert!(e0.key() == k1 && e0.value() == v1);
            assert!(e1.key() == k0 && e1.value() == v0);
        } else {
            assert!(e0.key() == k0 && e0.value() == v0);
            assert!(e1.key() == k1 && e1.value() == v1);
        }
    }

    #[kani::proof]
    #[kani::unwind(34)]
    fn leaf_roundtrip_var_var() {
        // two pairs, keys and values up to 2 bytes, variable/variable widths
        let kb: [[u8; 2]; 2] = kani::any();
        let vb: [[u8; 2]; 2] = kani::any();
        let kl0: usize = kani::any();
        let kl1: usize = kani::any();
        let vl0: usize = kani::any();
        let vl1: usize = kani::any();
        kani::assume(kl0 <= 2 && kl1 <= 2 && vl0 <= 2 && vl1 <= 2);
        let k0 = &kb[0][..kl0];
        let k1 = &kb[1][..kl1];
        let v0 = &vb[0][..vl0];
        let v1 = &vb[1][..vl1];
        let mut page = [0u8; 32];
        let key_bytes = kl0 + kl1;
        let required = RawLeafBuilder::required_bytes(2, key_bytes + vl0 + vl1, None, None);
        assert!(required <= 32);
        {
            let mut b = RawLeafBuilder::new(&mut page, 2, None, None, key_bytes);
            b.append(k0, v0);
            b.append(k1, v1);
        }
        let acc = LeafAccessor::new(&page, None, None);
        assert!(acc.num_pairs() == 2);
        let e0 = acc.entry(0).unwrap();
        let e1 = acc.entry(1).unwrap();
        assert!(e0.key() == k0 && e0.value() == v0);
        assert!(e1.key() == k1 && e1.value() == v1);
        assert!(acc.total_length() == required);
        assert!(acc.entry(2).is_none());
    }
}

// appended to src/tree_store/multimap_btree.rs in a scratch copy of the crate during the design round

#[cfg(kani)]
mod verif_kani {
    use super::*;

    #[kani::proof]
    #[kani::unwind(40)]
    fn subtree_collection_roundtrip() {
        let region: u32 = kani::any();
        let index: u32 = kani::any();
        let order: u8 = kani::any();
        kani::assume(region <= 0x000F_FFFF && order <= 20 && u64::from(index) < (1u64 << (20 - order)));
        let h = BtreeHeader::new(PageNumber::new(region, index, order), kani::any(), kani::any());
        let bytes = DynamicCollection::<u64>::make_subtree_data(h);
        let c = DynamicCollection::<u64>::new(&bytes);
        assert!(matches!(c.collection_type(), SubtreeV2));
        assert!(c.as_subtree() == h);
        assert!(c.get_num_values() == h.length);
    }
}

// appended to src/tree_store/page_store/base.rs in a scratch copy of the crate during the design round

#[cfg(kani)]
mod verif_kani {
    use super::*;

    #[kani::proof]
    fn page_number_roundtrip() {
        let region: u32 = kani::any();
        let index: u32 = kani::any();
        let order: u8 = kani::any();
        kani::assume(region <= 0x000F_FFFF);
        kani::assume(order <= MAX_MAX_PAGE_ORDER);
        kani::assume(u64::from(index) < (1u64 << (20 - order)));
        let p = PageNumber { region, page_index: index, page_order: order };
        let q = PageNumber::from_le_bytes(p.to_le_bytes());
        assert!(p == q);
    }
}

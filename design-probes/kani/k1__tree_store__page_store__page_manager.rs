// appended to src/tree_store/page_store/page_manager.rs in a scratch copy of the crate during the design round

#[cfg(kani)]
mod verif_kani {
    use super::*;
    use crate::tree_store::page_store::cached_file::verif_stub::*;
    use crate::tree_store::page_store::layout::RegionLayout;

    fn stub_format(_: core::fmt::Arguments<'_>) -> alloc::string::String { alloc::string::String::new() }
    fn stub_xxh3(data: &[u8]) -> Checksum {
        let mut acc: u128 = 0x9E37_79B9_7F4A_7C15;
        let mut i = 0;
        while i < data.len() {
            acc = acc.rotate_left(5) ^ u128::from(data[i]);
            i += 1;
        }
        acc
    }

    fn stub_clear(_this: &mut UnpersistedState) {}
    fn stub_no_dirty(_this: &TransactionalMemory) {}

    #[kani::proof]
    #[kani::unwind(130)]
    #[kani::stub(UnpersistedState::clear, stub_clear)]
    #[kani::stub(TransactionalMemory::debug_assert_no_dirty_pages, stub_no_dirty)]
    #[kani::stub(alloc::fmt::format, stub_format)]
    #[kani::stub(xxh3_checksum, stub_xxh3)]
    #[kani::stub(crate::tree_store::page_store::cached_file::PagedCachedFile::write, stub_write)]
    #[kani::stub(crate::tree_store::page_store::cached_file::PagedCachedFile::flush, stub_flush)]
    #[kani::stub(crate::tree_store::page_store::cached_file::PagedCachedFile::resize, stub_resize)]
    #[kani::stub(crate::tree_store::page_store::cached_file::LRUWriteCache::return_value, stub_return_value)]
    fn commit_protocol() {
        let page_size: u32 = 4096;
        let full = RegionLayout::new(1024, 0, page_size);
        let layout = DatabaseLayout::new(0, full, Some(RegionLayout::new(16, 0, page_size)));
        let t_old: u64 = kani::any();
        let mut header = DatabaseHeader::new(layout, TransactionId::new(t_old));
        header.two_phase_commit = kani::any();
        if kani::any() { header.swap_primary_slot(); }
        let old_god_primary = header.to_bytes(true)[9] & 1;
        let mem = TransactionalMemory {
            unpersisted: Mutex::new(UnpersistedState::default()),
            storage: bare_file(u64::from(page_size)),
            state: Mutex::new(InMemoryState::new(header)),
            #[cfg(debug_assertions)]
            open_dirty_pages: Arc::new(Mutex::new(PageNumberHashSet::default())),
            #[cfg(debug_assertions)]
            read_page_ref_counts: Arc::new(Mutex::new(PageNumberHashMap::default())),
            #[cfg(debug_assertions)]
            allocated_pages: Arc::new(Mutex::new(PageNumberHashSet::default())),
            needs_repair: AtomicBool::new(false),
            page_size,
            region_size: 0,
            region_header_with_padding_size: 0,
        };
        let t_new: u64 = kani::any();
        kani::assume(t_new > t_old);
        let two_phase: bool = kani::any();
        let r = mem.commit(None, None, TransactionId::new(t_new), two_phase, ShrinkPolicy::Never);
        let (n, tr) = unsafe { (TRACE_LEN, TRACE) };
        let published = mem.state.lock().unwrap().header.primary_slot().transaction_id.raw_id();
        if r.is_ok() {
            assert!(published == t_new);
            if two_phase {
                assert!(n == 4);
                assert!(tr[0].0 == 1 && tr[1].0 == 2 && tr[2].0 == 1 && tr[3].0 == 2);
            } else {
                assert!(n == 3);
                assert!(tr[0].0 == 1 && tr[1].0 == 1 && tr[2].0 == 2);
            }
            // first header write: primary bit unchanged, secondary carries the new id
            assert!(tr[0].1 & 1 == old_god_primary);
            assert!(tr[0].2 == t_new);
            let second = if two_phase { tr[2] } else { tr[1] };
            assert!(second.1 & 1 != old_god_primary);
            assert!((second.1 & 4 != 0) == two_phase);
        } else {
            assert!(published == t_old);
        }
        core::mem::forget(mem);
    }
}

from splice import *
u=open('u64.rs').read()
u=u[:u.index("\nfn main() {}")]
s=open('bm.rs').read()
i=s.index("pub struct BtreeBitmap")
j=s.index("// Returns a u64 with bits `lo..hi` set")
body=s[i:j]
body=body.replace("    heights: Vec<U64GroupedBitmap>,","    pub heights: Vec<U64GroupedBitmap>,")
# drop serialisers and constructors for this first prototype (kept external / out of scope here)
def drop_fn(body, start_marker, next_marker):
    a=body.index(start_marker); b=body.index(next_marker)
    return body[:a]+body[b:]
body=drop_fn(body, "    #[verifier::external_body]\n    pub fn xxh3_hash", "    // Initializes a new allocator, with no ids free")
specs=[
("    pub fn has_unset(&self)", """        requires self.wf(),"""),
("    pub fn get(&self, i: u32)", """        requires self.wf(), i < self.leaf().len,
        ensures r == self.leaf().bit_at(i as int),"""),
("    pub fn len(&self) -> u32 {\n        self.get_level", """        requires self.wf(),
        ensures r == self.leaf().len,"""),
("    pub fn find_first_unset(&self)", """        requires self.wf(),
        ensures
            match r {
                Some(x) => x < self.leaf().len && !self.leaf().bit_at(x as int)
                    && forall|y: int| 0 <= y < x ==> #[trigger] self.leaf().bit_at(y),
                None => forall|y: int| 0 <= y < self.leaf().len ==> #[trigger] self.leaf().bit_at(y),
            },"""),
("    fn get_level(&self, i: u32)", """        requires (i as int) < self.heights@.len(), self.heights@.len() <= 16,
        ensures *r == self.heights@[i as int],"""),
("    fn get_height(&self)", """        requires self.heights@.len() <= 16,
        ensures r as int == self.heights@.len(),"""),
("    fn get_level_mut(&mut self, i: u32)", """        requires (i as int) < old(self).heights@.len(), old(self).heights@.len() <= 16,
        ensures *r == old(self).heights@[i as int],
            final(self).heights@ == old(self).heights@.update(i as int, *final(r)),"""),
("    pub fn set(&mut self, i: u32)", """        requires old(self).wf(), i < old(self).leaf().len,
        ensures final(self).wf(), final(self).same_shape(*old(self)),
            final(self).leaf().bit_at(i as int),
            forall|j: int| 0 <= j < old(self).leaf().len && j != i ==> #[trigger] final(self).leaf().bit_at(j) == old(self).leaf().bit_at(j),"""),
("    pub fn clear(&mut self, i: u32)", """        requires old(self).wf(), i < old(self).leaf().len,
        ensures final(self).wf(), final(self).same_shape(*old(self)),
            !final(self).leaf().bit_at(i as int),
            forall|j: int| 0 <= j < old(self).leaf().len && j != i ==> #[trigger] final(self).leaf().bit_at(j) == old(self).leaf().bit_at(j),"""),
("    pub fn alloc(&mut self)", """        requires old(self).wf(),
        ensures final(self).wf(), final(self).same_shape(*old(self)),
            match r {
                Some(x) => x < old(self).leaf().len && !old(self).leaf().bit_at(x as int)
                    && (forall|y: int| 0 <= y < x ==> #[trigger] old(self).leaf().bit_at(y))
                    && final(self).leaf().bit_at(x as int)
                    && forall|j: int| 0 <= j < old(self).leaf().len && j != x ==> #[trigger] final(self).leaf().bit_at(j) == old(self).leaf().bit_at(j),
                None => (forall|y: int| 0 <= y < old(self).leaf().len ==> #[trigger] old(self).leaf().bit_at(y)) && *final(self) == *old(self),
            },"""),
]
body=drop_fn(body, "    // Initializes a new allocator, with no ids free", "    // Returns the first unset id, and sets it")
body=splice(body,specs)
pre='''
impl BtreeBitmap {
    pub open spec fn h(&self) -> int { self.heights@.len() as int }
    pub open spec fn lvl(&self, k: int) -> U64GroupedBitmap { self.heights@[k] }
    pub open spec fn leaf(&self) -> U64GroupedBitmap { self.heights@[self.heights@.len() - 1] }
    // summary invariant between level p (parent) and p+1 (child)
    pub open spec fn summary(&self, p: int) -> bool {
        forall|e: int| 0 <= e < self.heights@[p].len ==> (#[trigger] self.heights@[p].bit_at(e) <==> self.heights@[p + 1].data@[e] == u64::MAX)
    }
    pub open spec fn shape_ok(&self) -> bool {
        1 <= self.h() <= 16
        && (forall|k: int| 0 <= k < self.h() ==> (#[trigger] self.heights@[k]).wf() && self.heights@[k].len <= 0x4000_0000)
        && self.heights@[0].len <= 64
        && (forall|k: int| 0 <= k < self.h() - 1 ==> (#[trigger] self.heights@[k]).len as int == (self.heights@[k + 1].len as int + 63) / 64)
    }
    pub open spec fn wf(&self) -> bool {
        self.shape_ok() && forall|p: int| 0 <= p < self.h() - 1 ==> #[trigger] self.summary(p)
    }
    pub open spec fn same_shape(&self, o: BtreeBitmap) -> bool {
        self.h() == o.h()
        && forall|k: int| 0 <= k < self.h() ==> (#[trigger] self.heights@[k]).len == o.heights@[k].len && self.heights@[k].data@.len() == o.heights@[k].data@.len()
    }
}
'''
open('bt.rs','w').write(u+pre+body+"\nfn main() {}\n}\n")

base=open('retry3.rs').read()
base=base[:base.index("\nfn main() {}")]
btn=open('btn.rs').read()
i=btn.index("pub open spec fn cap_bound(k: int) -> int {")
ctor=btn[i:btn.index("\nfn main() {}")]
body=open('bd_body.rs').read()
i=body.index("    pub fn new(num_pages: u32, max_page_capacity: u32) -> Self {")
j=body.index("    #[verifier::external_body]\n    pub fn xxh3_hash")
newfn=body[i:j]
src=base+"\n"+open("l2new.rs").read()+"\n#[verifier::external_body]\npub fn vec_reverse<T>(v: &mut Vec<T>) ensures final(v)@ == old(v)@.reverse() { v.reverse() }\n"+ctor+"\nimpl BuddyAllocator {\n"+newfn+"\n}\n"
def rep(a,b):
    global src
    assert src.count(a)==1,(src.count(a),a[:70])
    src=src.replace(a,b)
rep("fn calculate_usable_order(pages: u32) -> u8\n    requires pages > 0\n{","fn calculate_usable_order(pages: u32) -> (r: u8)\n    requires pages > 0\n    ensures r <= 20\n{")
rep("    pub fn new(num_pages: u32, max_page_capacity: u32) -> Self {","""    pub fn new(num_pages: u32, max_page_capacity: u32) -> (r: Self)
        requires 0 < max_page_capacity <= 0x4000_0000, num_pages <= 0x4000_0000,
        ensures r.len == num_pages, r.shape(), r.st().greedy(), r.wf2(),
    {""")
rep("        let mut free = vec![];\n        for _ in 0..=max_order {","""        let mut free: Vec<BtreeBitmap> = vec![];
        proof { assert(pow2(0) == 1); }
        for _ in iter: 0..=max_order
            invariant
                max_order <= 20, free@.len() == iter.index@, iter.index@ <= max_order as int + 1,
                pages_for_order as int == num_pages as int / pow2(iter.index@ as nat),
                capacity_for_order <= 0x4000_0000, num_pages <= 0x4000_0000,
                forall|k: int| 0 <= k < free@.len() ==> (#[trigger] free@[k]).wf() && free@[k].all_full()
                    && free@[k].leaf().len as int == num_pages as int / pow2(k as nat),
        {
            let ghost before = free@;
            proof { lemma_half(num_pages as int, iter.index@ as nat); }""")
rep("""            pages_for_order = next_higher_order(pages_for_order);
            capacity_for_order = next_higher_order(capacity_for_order);
        }""","""            proof {
                assert forall|k: int| 0 <= k < free@.len() - 1 implies #[trigger] free@[k] == before[k] by {}
            }
            pages_for_order = next_higher_order(pages_for_order);
            capacity_for_order = next_higher_order(capacity_for_order);
        }""")
rep("""        let mut accounted_pages = 0;
        for order in (0..=max_order).rev() {
            let order_size = pow2_u32(order);
            while accounted_pages + order_size <= num_pages {
                let page = accounted_pages / order_size;
                free[order as usize].clear(page);
                accounted_pages += order_size;
            }
        }""", """        let mut accounted_pages = 0;
        let ghost m = max_order as int;
        let ghost nn = num_pages as int;
        proof {
            let st0 = BS { fs: free@, m: m };
            assert forall|k: int, q: int| 0 <= k <= st0.m && 0 <= q < st0.n(k) implies #[trigger] st0.fs[k].leaf().bit_at(q) by {
                let b = free@[k];
                assert(b.wf() && b.all_full());
                let lf = b.heights@[b.h() - 1];
                assert(lf.wf());
                assert(lf.data@[q / 64] == u64::MAX);
                lemma_wbit_max(lf.data@[q / 64]);
            }
            st0.lemma_all_full_pg();
        }
        for order in iter: (0..=max_order).rev()
            invariant
                m == max_order as int, nn == num_pages as int, max_order <= 20, num_pages <= 0x4000_0000,
                iter.index@ <= m + 1, free@.len() == m + 1,
                forall|k: int| 0 <= k <= m ==> (#[trigger] free@[k]).wf() && free@[k].leaf().len as int == nn / pow2(k as nat),
                (BS { fs: free@, m: m }).pgreedy(m + 1 - iter.index@),
                accounted_pages as int == (if iter.index@ == 0 { 0 } else { (nn / pow2((m + 1 - iter.index@) as nat)) * pow2((m + 1 - iter.index@) as nat) }),
        {
            let ghost o = order as int;
            let ghost sz = pow2(order as nat);
            let ghost lo = (BS { fs: free@, m: m }).lo_of(o);
            let ghost c = lo;
            proof {
                assert(o == m - iter.index@);
                lemma_pow2_pos(order as nat);
                let st = BS { fs: free@, m: m };
                st.lemma_pg_enter(o);
                assert(st.n(o) == nn / sz);
                if o < m {
                    lemma_half(nn, order as nat);
                    assert(st.n(o + 1) == nn / pow2((o + 1) as nat));
                    assert(pow2((o + 1) as nat) == 2 * sz);
                    assert(accounted_pages as int == lo * sz) by (nonlinear_arith)
                        requires accounted_pages as int == (nn / (2 * sz)) * (2 * sz), lo == 2 * (nn / (2 * sz));
                } else {
                    assert(accounted_pages == 0);
                    assert(lo * sz == 0) by (nonlinear_arith) requires lo == 0;
                }
                lemma_div_block(nn, nn / sz, sz);
                assert(lo <= st.n(o)) by {
                    if o < m { assert(st.n(o + 1) == st.n(o) / 2); }
                }
                assert(lo * sz <= nn) by (nonlinear_arith)
                    requires 0 <= lo <= nn / sz, (nn / sz) * sz <= nn, sz > 0;
            }
            let order_size = pow2_u32(order);
            while accounted_pages + order_size <= num_pages
                invariant
                    m == max_order as int, nn == num_pages as int, num_pages <= 0x4000_0000, o == order as int, 0 <= o <= m, m <= 20,
                    sz == pow2(order as nat), order_size as int == sz, sz > 0, order_size <= 0x10_0000, free@.len() == m + 1,
                    forall|k: int| 0 <= k <= m ==> (#[trigger] free@[k]).wf() && free@[k].leaf().len as int == nn / pow2(k as nat),
                    0 <= lo <= c <= nn / sz, accounted_pages as int == c * sz, accounted_pages <= num_pages,
                    (BS { fs: free@, m: m }).pgreedy_cur(o, lo, c),
                    lo == (BS { fs: free@, m: m }).lo_of(o),
                decreases nn - accounted_pages,
            {
                let ghost pre = BS { fs: free@, m: m };
                let ghost pre_free = free@;
                proof {
                    lemma_fits(c, sz, nn);
                    lemma_mul_div_exact(c, sz);
                    assert(pre.n(o) == nn / sz);
                }
                let page = accounted_pages / order_size;
                free[order as usize].clear(page);
                accounted_pages += order_size;
                proof {
                    let post = BS { fs: free@, m: m };
                    assert forall|k: int| 0 <= k <= m && k != o implies #[trigger] free@[k] == pre_free[k] by {}
                    BS::lemma_pg_step(pre, post, o, lo, c);
                    assert(post.lo_of(o) == pre.lo_of(o)) by { if o < m { assert(post.fs[o + 1] == pre.fs[o + 1]); } }
                    assert((c + 1) * sz == c * sz + sz) by (nonlinear_arith);
                    c = c + 1;
                }
            }
            proof {
                let st = BS { fs: free@, m: m };
                lemma_fits(c, sz, nn);
                assert(c == nn / sz);
                assert(st.n(o) == nn / sz);
                assert(st.halving()) by {
                    assert forall|k: int| 0 <= k < st.m implies #[trigger] st.n(k + 1) == st.n(k) / 2 by { lemma_half(nn, k as nat); }
                }
                st.lemma_pg_exit(o);
            }
        }
        proof {
            let st = BS { fs: free@, m: m };
            assert(pow2(0) == 1);
            st.lemma_pg_done();
            assert(st.halving()) by {
                assert forall|k: int| 0 <= k < st.m implies #[trigger] st.n(k + 1) == st.n(k) / 2 by { lemma_half(nn, k as nat); }
            }
            st.lemma_greedy_wf();
        }""")
open('new.rs','w').write(src+"\nfn main() {}\n}\n")

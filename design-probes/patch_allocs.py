s=open('allocs.rs').read()
def rep(a,b):
    global s
    assert s.count(a)==1,(s.count(a),a[:70])
    s=s.replace(a,b)
rep("    pub fn new(regions: u32, orders: u8) -> Self {\n        let mut data = vec![];\n        for _ in 0..orders {","""    pub fn new(regions: u32, orders: u8) -> (r: Self)
        requires regions <= 0x10_0000, 1 <= orders <= 32,
        ensures r.wf(), r.regions() == regions, r.order_trackers@.len() == orders,
            forall|o: int, x: int| 0 <= o < orders && 0 <= x < regions ==> !#[trigger] r.may_be_free(o, x),
    {
        let mut data: Vec<BtreeBitmap> = vec![];
        for _ in iter: 0..orders
            invariant data@.len() == iter.index@, iter.index@ <= orders, regions <= 0x10_0000,
                forall|k: int| 0 <= k < data@.len() ==> (#[trigger] data@[k]).wf() && data@[k].all_full() && data@[k].leaf().len == regions,
        {
            let ghost before = data@;""")
rep("            data.push(BtreeBitmap::new_padded(regions, regions, MAX_REGIONS));\n        }","""            data.push(BtreeBitmap::new_padded(regions, regions, MAX_REGIONS));
            proof { assert forall|k: int| 0 <= k < data@.len() - 1 implies #[trigger] data@[k] == before[k] by {} }
        }
        proof {
            assert forall|o: int, x: int| 0 <= o < orders && 0 <= x < regions implies data@[o].leaf().bit_at(x) by {
                let b = data@[o];
                assert(b.wf() && b.all_full());
                let lf = b.heights@[b.h() - 1];
                assert(lf.wf());
                assert(lf.data@[x / 64] == u64::MAX);
                lemma_wbit_max(lf.data@[x / 64]);
            }
        }""")
rep("    pub fn new(layout: DatabaseLayout) -> Self {\n        let mut region_allocators = vec![];","""    pub fn new(layout: DatabaseLayout) -> (r: Self)
        requires layout.ok(), layout.full_region_layout.num_pages <= 0x10_0000,
        ensures r.wf(), r.trk(), r.nreg() == layout.spec_num_regions(),
    {
        let mut region_allocators: Vec<BuddyAllocator> = vec![];""")
rep("        for i in 0..layout.num_regions() {\n            let region_layout = layout.region_layout(i);","""        for i in iter: 0..layout.num_regions()
            invariant
                layout.ok(), layout.full_region_layout.num_pages <= 0x10_0000,
                region_allocators@.len() == i, i <= layout.spec_num_regions(),
                region_tracker.wf(), region_tracker.order_trackers@.len() == 21,
                region_tracker.regions() == initial_regions, initial_regions >= layout.spec_num_regions(), initial_regions <= 0x10_0000,
                forall|r: int| 0 <= r < region_allocators@.len() ==> (#[trigger] region_allocators@[r]).wf2() && region_allocators@[r].len <= 0x10_0000
                    && forall|o: int| 0 <= o <= region_allocators@[r].max_order ==> region_tracker.may_be_free(o, r),
                forall|o: int, r: int| 0 <= o < 21 && 0 <= r < initial_regions && #[trigger] region_tracker.may_be_free(o, r) ==> r < i,
        {
            let ghost before = region_allocators@;
            let ghost tr0 = region_tracker;
            let region_layout = layout.region_layout(i);""")
rep("            region_tracker.mark_free(max_order, i);\n            region_allocators.push(allocator);\n        }","""            region_tracker.mark_free(max_order, i);
            region_allocators.push(allocator);
            proof {
                assert forall|r: int| 0 <= r < region_allocators@.len() - 1 implies #[trigger] region_allocators@[r] == before[r] by {}
                assert forall|r: int| 0 <= r < region_allocators@.len() implies (#[trigger] region_allocators@[r]).wf2() && region_allocators@[r].len <= 0x10_0000
                    && forall|o: int| 0 <= o <= region_allocators@[r].max_order ==> region_tracker.may_be_free(o, r) by {
                    if r < i {
                        assert(region_allocators@[r] == before[r]);
                        assert forall|o: int| 0 <= o <= region_allocators@[r].max_order implies region_tracker.may_be_free(o, r) by {
                            assert(tr0.may_be_free(o, r));
                        }
                    }
                }
            }
        }
        let r = Self {
            region_tracker,
            region_allocators,
        };
        proof {
            assert forall|x: int, o: int| 0 <= x < r.nreg() && 0 <= o < 21 && #[trigger] r.has_free_ge(x, o) implies r.region_tracker.may_be_free(o, x) by {
                let (k, q) = choose|k: int, q: int| o <= k && #[trigger] r.region_allocators@[x].st().a(k, q);
                assert(k <= r.region_allocators@[x].max_order);
            }
        }
        return r;""")
open('allocs.rs','w').write(s)

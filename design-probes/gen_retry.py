import re
bd=open('bd6.rs').read()
bd=bd[:bd.index("\nfn main() {}")]
rg=open('rg.rs').read()
# take RegionTracker pieces (spec impl + struct + impl) from rg.rs: everything after the bitmap base
i=rg.index("impl RegionTracker {\n    pub open spec fn regions")
rgpart=rg[i:rg.index("\nfn main() {}")]
parts=open('retry_body.rs').read().split("\n=====\n")
acc, retry, pn_new = parts
retry=retry.replace("    fn allocate_helper_retry(","    #[verifier::exec_allows_no_decreases_clause]\n    pub fn allocate_helper_retry(")
acc=acc.replace("    fn allocators_mut","    pub fn allocators_mut").replace("    fn get_region_mut","    pub fn get_region_mut").replace("    fn get_region_tracker_mut","    pub fn get_region_tracker_mut")
pn_new=pn_new.replace("pub(crate) fn new","pub fn new")
# wrap alloc_lowest with an assumed contract for this probe
src=bd+"\n"+rgpart+'''
// ---------------------------------------------------------------- probe-only declarations
pub const MAX_PAGE_INDEX: u32 = 0x000F_FFFF;
#[verifier::external_body]
pub struct DatabaseHeader { _p: u8 }
#[verifier::external_body]
pub struct StorageError { _p: u8 }
pub type Result<T> = core::result::Result<T, StorageError>;

pub struct PageNumber { pub region: u32, pub page_index: u32, pub page_order: u8 }
impl PageNumber {
'''+pn_new+'''
}

pub struct Allocators { pub region_tracker: RegionTracker, pub region_allocators: Vec<BuddyAllocator> }
pub struct InMemoryState { pub header: DatabaseHeader, pub allocators: Option<Allocators>, pub read_from_secondary: bool }

impl BuddyAllocator {
    // ASSUMED in this probe (alloc_lowest is not verified yet): same contract as `alloc`
    #[verifier::external_body]
    pub fn alloc_lowest(&mut self, order: u8) -> (r: Option<u32>)
        requires old(self).wf2(),
        ensures final(self).wf2(), final(self).same_shape(*old(self)),
            r matches Some(p) ==> order <= old(self).max_order && (p as int) < old(self).ord(order as int).len
                && old(self).st().cov(order as int, p as int) && !final(self).st().cov(order as int, p as int),
            r matches Some(p) ==> forall|k: int, y: int| 0 <= k <= order ==> #[trigger] final(self).st().cov(k, y)
                    == (old(self).st().cov(k, y) && !is_anc(k, y, order as int, p as int)),
            r matches Some(p) ==> forall|j: int, y: int| #[trigger] final(self).st().a(j, y) ==> old(self).st().cov(j, y),
            r is None ==> final(self).free@ == old(self).free@,
            r is None ==> forall|k: int, q: int| order <= k ==> !#[trigger] old(self).st().a(k, q),
    { unimplemented!() }
}

impl Allocators {
    pub open spec fn nreg(&self) -> int { self.region_allocators@.len() as int }
    pub open spec fn has_free_ge(&self, r: int, o: int) -> bool {
        exists|k: int, q: int| o <= k && #[trigger] self.region_allocators@[r].st().a(k, q)
    }
    pub open spec fn wf(&self) -> bool {
        self.region_tracker.wf() && self.region_tracker.order_trackers@.len() == 21
        && self.nreg() <= self.region_tracker.regions()
        && (forall|r: int| 0 <= r < self.nreg() ==> (#[trigger] self.region_allocators@[r]).wf2())
        // tracker only ever points at existing regions
        && (forall|o: int, r: int| 0 <= o < 21 && 0 <= r < self.region_tracker.regions() && #[trigger] self.region_tracker.may_be_free(o, r) ==> r < self.nreg())
    }
    // TRK: a region holding a free block of order >= o is never reported full at order o
    pub open spec fn trk(&self) -> bool {
        forall|r: int, o: int| 0 <= r < self.nreg() && 0 <= o < 21 && #[trigger] self.has_free_ge(r, o) ==> self.region_tracker.may_be_free(o, r)
    }
}

impl InMemoryState {
'''+acc+"\n\n"+retry+'''
}
'''
open('retry.rs','w').write(src+"\nfn main() {}\n}\n")
